"""C04 — exceptions transfer control to the right handler and preserve program state.

The product of: placement {module, fn with 0/1/3 parameters, method, callback run by a
native} x locals before the try {0, 2} x stack-perturbing prefix {none, ternary, send,
and/or, loop with break under if} x enclosing loop {none, while, for} x nesting {single,
try inside try, try inside catch} x raise {none, depth 0, depth 2} x origin {raise Error,
raise subclass, VM error, native error} x catch filter {none, Error, subclass,
non-matching class} x exit path {complete, break, continue, return} x late second error,
followed by an epilogue that prints every parameter, local and result variable, declares
and uses a new variable and optionally raises a second error after the try was left;
plus the multi-clause family (1-4 catch clauses per try in 9 matching patterns, with and without a try of its own inside every clause, x 5 placements
x 4 origins x loops x exits x raise-in-handler) and the opcode-prefix family (vlib/spaces.py): one statement per stack-affecting construct
of the language (47, singly and in all ordered pairs) before or inside a try that fires in
a method of a subclass, the epilogue prints local, parameter, result and two fields.
Oracle: reference evaluator (vlib/layref.py).
"""
import itertools, time
from vlib.engine import Check, Verdict, explore
from vlib import report, layref as L

def N(x): return ["num", x]
def S(x): return ["str", x]
def V(x): return ["var", x]
def call(f, *a): return ["call", V(f) if isinstance(f, str) else f, list(a)]
def inv(o, m, *a): return ["invoke", o, m, list(a)]

PLACEMENTS = ["module", "fn0", "fn1", "fn3", "method1", "callback", "closure1"]
PREFIXES = ["none", "ternary", "send", "andor", "loopbreak"]
LOOPS = ["none", "while", "for"]
NESTS = ["single", "inner", "incatch", "exit_after_inner", "exit_in_inner_catch"]
RAISES = [None, 0, 2]
ORIGINS = ["error", "sub", "vm", "native", "vmbin", "vmneg"]  # vmbin / vmneg: the failing instruction has already popped its operands when the error object is built
FILTERS = [None, "Error", "MyErr", "OtherErr"]
EXITS = ["complete", "break", "continue", "return", "return_raises"]  # return_raises: the error comes out of the expression of a `return` inside the try


def origin_stmt(o):
    if o == "error":
        return ["raise", call("Error", S("boom"))]
    if o == "sub":
        return ["raise", call("MyErr", S("sub"))]
    if o == "vm":
        return ["expr", ["index", ["list", []], N(1)]]
    if o == "vmbin":
        return ["expr", ["bin", "+", ["nil"], N(1)]]
    if o == "vmneg":
        return ["expr", ["un", "-", S("s")]]
    return ["expr", inv(V("Number"), "parse", S("zz"))]


def err_print(tag, var="e"):
    # message only for user raised errors (VM messages are not modelled)
    name = inv(inv(V(var), "cls"), "name")
    return ["print", [S(tag), name, ["tern", ["or", ["bin", "==", name, S("Error")], ["bin", "==", name, S("MyErr")]], ["get", V(var), "message"], S("-")]]]


def scenario(pl, nlocals, prefix, loop, nest, rdepth, origin, filt, exitp, late):
    if exitp in ("break", "continue") and loop == "none":
        return None
    if pl == "module" and exitp in ("return", "return_raises"):
        return None
    header = [["class", "MyErr", "Error", []], ["class", "OtherErr", "Error", []], ["let", "ch", ["chan", N(4)]],
              ["fn", "thrower", ["d", "k"], [["if", ["bin", "==", V("d"), N(0)], [["if", ["bin", "==", V("k"), N(0)], [origin_stmt("error")], None],
                                                                             ["if", ["bin", "==", V("k"), N(1)], [origin_stmt("sub")], None],
                                                                             ["if", ["bin", "==", V("k"), N(2)], [origin_stmt("vm")], None],
                                                                             ["if", ["bin", "==", V("k"), N(3)], [origin_stmt("native")], None],
                                                                             ["if", ["bin", "==", V("k"), N(4)], [origin_stmt("vmbin")], None],
                                                                             origin_stmt("vmneg")], None],
                                            ["return", call("thrower", ["bin", "-", V("d"), N(1)], V("k"))]]]]
    params = {"module": [], "fn0": [], "fn1": ["p0"], "fn3": ["p0", "p1", "p2"], "method1": ["p0"], "callback": ["p0"], "closure1": ["p0"]}[pl]
    body = []
    for k in range(nlocals):
        body.append(["let", "l%d" % k, N(10 + k)])
    body.append(["let", "r", S("none")])
    if prefix == "ternary":
        body += [["let", "pt", ["tern", ["bin", "==", V("r"), S("none")], N(1), N(2)]], ["expr", ["assign", "r", ["bin", "+", V("r"), inv(V("pt"), "str")]]]]
    elif prefix == "send":
        body += [["expr", ["send", V("ch"), N(7)]], ["expr", ["assign", "r", ["bin", "+", V("r"), inv(["recv", V("ch")], "str")]]]]
    elif prefix == "andor":
        body += [["let", "pa", ["or", ["and", ["bin", "==", V("r"), S("zz")], N(5)], N(6)]], ["expr", ["assign", "r", ["bin", "+", V("r"), inv(V("pa"), "str")]]]]
    elif prefix == "loopbreak":
        body += [["let", "pl", N(0)], ["while", ["bin", "<", V("pl"), N(5)], [["expr", ["assign", "pl", ["bin", "+", V("pl"), N(1)]]], ["let", "q1", V("pl")], ["let", "q2", V("q1")],
                                                                           ["if", ["bin", "==", V("pl"), N(2)], [["break"]], None], ["expr", ["assign", "r", ["bin", "+", V("r"), inv(V("q2"), "str")]]]]]]
    kcode = ORIGINS.index(origin)
    action = []
    if not (origin in ("vmbin", "vmneg") and rdepth == 0):
        # (for these two the failing statement is the first of the block: the slot under its operands is a local that outlives the try)
        action.append(["let", "t0", S("in")])
    if rdepth is not None:
        action.append(["expr", call("thrower", N(rdepth), N(kcode))] if rdepth > 0 else origin_stmt(origin))
    if exitp == "break":
        exit_stmt = ["break"]
    elif exitp == "continue":
        exit_stmt = ["continue"]
    elif exitp == "return":
        exit_stmt = ["return", S("ret")]
    elif exitp == "return_raises":
        exit_stmt = ["return", ["list", [S("ret"), call("thrower", N(1), N(kcode))]]]
    else:
        exit_stmt = ["expr", ["assign", "r", ["bin", "+", V("r"), S("+done")]]]
    handler = [["expr", ["assign", "r", ["bin", "+", V("r"), S("+caught")]]], err_print("h")]
    if nest in ("exit_after_inner", "exit_in_inner_catch"):
        # the exit leaves the OUTER try from a point after the inner try block: behind the whole inner statement, or inside the inner handler
        if nest == "exit_after_inner":
            tr = ["try", [["let", "o0", N(1)], ["try", action, "e", filt, handler], exit_stmt], "e2", None,
                  [["expr", ["assign", "r", ["bin", "+", V("r"), S("+outercaught")]]], err_print("h2", "e2")]]
        else:
            tr = ["try", [["let", "o0", N(1)], ["try", action, "e", filt, handler + [exit_stmt]], ["expr", ["assign", "r", ["bin", "+", V("r"), S("+outerbody")]]]], "e2", None,
                  [["expr", ["assign", "r", ["bin", "+", V("r"), S("+outercaught")]]], err_print("h2", "e2")]]
    else:
        action.append(exit_stmt)
        tr = ["try", action, "e", filt, handler]
    if nest == "inner":
        tr = ["try", [["let", "o0", N(1)], tr, ["expr", ["assign", "r", ["bin", "+", V("r"), S("+outerbody")]]]], "e2", None,
              [["expr", ["assign", "r", ["bin", "+", V("r"), S("+outercaught")]]], err_print("h2", "e2")]]
    elif nest == "incatch":
        tr = ["try", [["raise", call("Error", S("first"))]], "e0", None, [["let", "c0", N(2)], tr, ["expr", ["assign", "r", ["bin", "+", V("r"), S("+aftercatch")]]]]]
    if loop == "while":
        body += [["let", "i", N(0)], ["while", ["bin", "<", V("i"), N(2)], [["expr", ["assign", "i", ["bin", "+", V("i"), N(1)]]], ["let", "w0", V("i")], tr,
                                                                         ["expr", ["assign", "r", ["bin", "+", V("r"), S("+it")]]]]]]
    elif loop == "for":
        body += [["for", "i", inv(N(2), "times"), [["let", "w0", V("i")], tr, ["expr", ["assign", "r", ["bin", "+", V("r"), S("+it")]]]]]]
    else:
        body.append(tr)
    # epilogue: everything in scope, a new variable, optionally a late error
    body.append(["print", [S("state")] + [V(p) for p in params] + [V("l%d" % k) for k in range(nlocals)] + [V("r")]])
    body += [["let", "post", N(5)], ["print", [S("post"), ["bin", "+", V("post"), N(1)]]]]
    if late:
        body.append(["raise", call("Error", S("late"))])
    args = [N(k + 1) for k in range(len(params))]
    if pl == "module":
        return header + [["try", body, "eo", None, [err_print("outer", "eo")]], ["print", [S("end")]]]
    body.append(["return", S("end")])
    if pl == "closure1":
        # the try sits in a closure: the parameter, the locals and the result variable of the enclosing function are captured variables there
        nd = nlocals + 1
        d = [["fn", "f", params, body[:nd] + [["let", "inner", ["lambda", [], body[nd:], False]], ["return", call("inner")]]]]
        c = call("f", *args)
    elif pl in ("fn0", "fn1", "fn3"):
        d = [["fn", "f", params, body]]
        c = call("f", *args)
    elif pl == "method1":
        d = [["class", "K", None, [("method", "m", params, body)]]]
        c = inv(call("K"), "m", *args)
    else:
        d = [["fn", "f", [], [["let", "res", ["list", []]], ["expr", inv(inv(["list", [N(1), N(2)]], "iter"), "each", ["lambda", params, body, False])], ["return", S("cbend")]]]]
        c = call("f")
    return header + d + [["try", [["print", [S("ret"), c]]], "eo", None, [err_print("outer", "eo")]],
                         ["try", [["print", [S("ret2"), c]]], "eo", None, [err_print("outer2", "eo")]],
                         # an error of the caller right behind the call: a handler the callee left installed would receive it
                         ["try", [["print", [S("ret3"), c]], ["raise", call("Error", S("aftercall"))]], "eo", None, [err_print("outer3", "eo")]], ["print", [S("end")]]]


def opc_expected(spec):
    """expected output of vlib.spaces.opcode_prefix_source(spec): the epilogue prints [l0, p0, r, self.n, self.k]; only three prefixes touch self.k"""
    from vlib import spaces
    idx, in_try, rk = spec
    k = 0
    for i in idx:
        p = spaces.OPCODE_PREFIXES[i]
        if p == "self.k += 1;" or p == "self.k = self.k + 1;":
            k += 1
        elif p == "@k = 5;":
            k = 5
    r = {"none": "none+done", "vm": "none+caught:IndexError", "raise": "none+caught:Error:r", "deep": "none+caught:Error:deep"}[rk]
    return "[1, 2, '%s', 1, %d]\n[1, 4, '%s', 3, %d]\n" % (r, k, r, k)


CLAUSE_SETS = [["MyErr"], ["OtherErr", "MyErr"], ["MyErr", "OtherErr"], ["OtherErr", "ThirdErr", "MyErr"], ["OtherErr", "ThirdErr"], ["OtherErr", None], [None, "MyErr"], ["ThirdErr", "Error", "MyErr"],
               ["OtherErr", "ThirdErr", "Error", None]]


def multi_scenario(pl, clauses, origin, loop, exitp, raise_in_handler, nested_in_handler=False, captured=False):
    """several catch clauses on one try: the first matching one runs, the others leave no trace on the stack (locals declared after the try read their own values)"""
    if exitp in ("break", "continue") and loop == "none":
        return None
    if pl == "module" and exitp in ("return", "return_raises"):
        return None
    header = [["class", "MyErr", "Error", []], ["class", "OtherErr", "Error", []], ["class", "ThirdErr", "Error", []]]
    params = {"module": [], "fn0": [], "fn3": ["p0", "p1", "p2"], "method1": ["p0"], "callback": ["p0"]}[pl]
    body = [["let", "l0", N(10)], ["let", "r", S("none")]]
    act = [["let", "t0", S("in")], origin_stmt(origin) if origin != "none" else ["let", "quiet", N(1)]]
    act.append({"break": ["break"], "continue": ["continue"], "return": ["return", S("ret")], "return_raises": ["return", ["list", [S("ret"), ["index", ["list", []], N(1)]]]]}.get(exitp, ["expr", ["assign", "r", ["bin", "+", V("r"), S("+done")]]]))
    cl = []
    for k, cname in enumerate(clauses):
        h = [["let", "h%d" % k, N(k)], ["expr", ["assign", "r", ["bin", "+", V("r"), S("+c%d" % k)]]], err_print("h%d" % k, "e%d" % k)]
        if captured:
            # the error variable of every clause lives in a box (a closure captures it); a clause that does not match must leave nothing behind
            h += [["let", "who%d" % k, ["lambda", [], [["return", inv(inv(V("e%d" % k), "cls"), "name")]], False]], ["let", "hh%d" % k, N(50 + k)],
                  ["print", [S("captured"), call(V("who%d" % k)), V("h%d" % k), V("hh%d" % k)]]]
        if nested_in_handler:
            # a try of its own inside every clause (its handler depth is that of the clause, whichever position the clause has)
            h += [["try", [["let", "n%d" % k, N(20 + k)], ["raise", call("OtherErr", S("nested%d" % k))]], "ne%d" % k, None,
                   [["let", "nh%d" % k, N(30 + k)], err_print("nested", "ne%d" % k), ["expr", ["assign", "r", ["bin", "+", V("r"), S("+n")]]]]],
                  ["let", "after%d" % k, N(40 + k)], ["print", [S("locals"), V("h%d" % k), V("after%d" % k), V("l0")]]]
        if raise_in_handler and k == len(clauses) - 1:
            h.append(["raise", call("ThirdErr", S("from handler"))])
        cl.append(("e%d" % k, cname, h))
    tr = ["trym", act, cl]
    if loop == "while":
        body += [["let", "i", N(0)], ["while", ["bin", "<", V("i"), N(2)], [["expr", ["assign", "i", ["bin", "+", V("i"), N(1)]]], ["let", "w0", V("i")], tr, ["expr", ["assign", "r", ["bin", "+", V("r"), S("+it")]]]]]]
    elif loop == "for":
        body += [["for", "i", inv(N(2), "times"), [["let", "w0", V("i")], tr, ["expr", ["assign", "r", ["bin", "+", V("r"), S("+it")]]]]]]
    else:
        body.append(tr)
    body += [["let", "y", S("y")], ["let", "z", S("z")], ["print", [S("state")] + [V(p) for p in params] + [V("l0"), V("r"), V("y"), V("z")]]]
    args = [N(k + 1) for k in range(len(params))]
    if pl == "module":
        return header + [["try", body, "eo", None, [err_print("outer", "eo")]], ["print", [S("end")]]]
    body.append(["return", S("end")])
    if pl in ("fn0", "fn3"):
        d = [["fn", "f", params, body]]
        c = call("f", *args)
    elif pl == "method1":
        d = [["class", "K", None, [("method", "m", params, body)]]]
        c = inv(call("K"), "m", *args)
    else:
        d = [["fn", "f", [], [["expr", inv(inv(["list", [N(1), N(2)]], "iter"), "each", ["lambda", params, body, False])], ["return", S("cbend")]]]]
        c = call("f")
    return header + d + [["try", [["print", [S("ret"), c]]], "eo", None, [err_print("outer", "eo")]], ["try", [["print", [S("ret2"), c]]], "eo", None, [err_print("outer2", "eo")]], ["print", [S("end")]]]


class C04(Check):
    id = "C04"
    level = "exploration"
    rule = ""
    assumptions = ["reference evaluator vlib/layref.py; VM/native error messages are not compared (class only), user error messages are",
                   "an uncaught error in the callback placement passes through the native each() to the outer handler"]

    def gen(self, tier):
        th = tier == "thorough"
        if th:
            space = itertools.product(PLACEMENTS, (0, 2), PREFIXES, LOOPS, NESTS, RAISES, ORIGINS, FILTERS, EXITS, (False, True))
        else:
            space = itertools.chain(
                itertools.product(PLACEMENTS, (0, 2), PREFIXES, LOOPS, ["single"], [None, 0, 2], ["error", "vm", "vmbin"], [None, "OtherErr"], EXITS, (False, True)),
                itertools.product(["fn1", "method1", "callback", "closure1"], (2,), ["none", "send"], LOOPS, ["inner", "incatch", "exit_after_inner", "exit_in_inner_catch"], RAISES, ORIGINS, FILTERS, EXITS, (True,)))
        from vlib import spaces
        for sp in spaces.opcode_prefix_specs(True):
            yield ("opc", sp)
        for pl in ("module", "fn0", "fn3", "method1", "callback"):
            for ci in range(len(CLAUSE_SETS)):
                for origin in ("none", "sub", "error", "vm"):
                    for loop in LOOPS:
                        for exitp in EXITS:
                            for rih in (False, True):
                                if multi_scenario(pl, CLAUSE_SETS[ci], origin, loop, exitp, rih) is not None:
                                    yield ("multi", pl, ci, origin, loop, exitp, rih)
                                    if origin != "none":
                                        yield ("multi", pl, ci, origin, loop, exitp, rih, True)
                                        yield ("multi", pl, ci, origin, loop, exitp, rih, False, True)
        for f in space:
            if f[5] is None and f[6] != ORIGINS[0] and not th:
                continue
            if f[5] is None and f[6] != ORIGINS[0]:
                continue
            if scenario(*f) is not None:
                yield f

    def describe(self, spec):
        if spec[0] == "multi":
            return "multi-catch placement=%s clauses=%s origin=%s loop=%s exit=%s raise_in_handler=%s%s" % (spec[1], CLAUSE_SETS[spec[2]], spec[3], spec[4], spec[5], spec[6], (" nested_try_in_every_clause" if len(spec) > 7 and spec[7] else "") + (" catch_variables_captured" if len(spec) > 8 and spec[8] else ""))
        if spec[0] == "opc":
            from vlib import spaces
            return "opcode-prefix %s: %s" % (spec[1], " ".join(spaces.OPCODE_PREFIXES[i] for i in spec[1][0])[:200])
        return "placement=%s locals=%d prefix=%s loop=%s nest=%s raise_depth=%s origin=%s filter=%s exit=%s late=%s" % spec

    def build(self, spec):
        if spec[0] == "opc":
            from vlib import spaces
            return [{"src": spaces.opcode_prefix_source(spec[1]), "step_limit": 500000}], ("ok", opc_expected(spec[1]), None)
        stmts = scenario(*spec) if spec[0] != "multi" else multi_scenario(spec[1], CLAUSE_SETS[spec[2]], *spec[3:])
        try:
            exp = L.Interp().run(stmts)[:3]
        except L.Unsupported as u:
            exp = ("unsupported", str(u), None)
        # the same AST printed plainly and with (run-time erased) type annotations, generic parameters and member declarations
        return [{"src": L.render(stmts, lay)[0], "step_limit": 500000} for lay in ("min", "typed")], exp

    def judge(self, spec, exp, rs):
        last = None
        for k, r in enumerate(rs):
            last = self.judge1(spec, exp, [r])
            if not last.ok:
                if k == 1:
                    last.reason = "[typed layout] " + last.reason
                return last
        return last

    def judge1(self, spec, exp, rs):
        r = rs[0]
        cls, out, ecls = exp
        if cls == "unsupported":
            v = Verdict(False, False, "unsupported", "reference cannot evaluate its own scenario: %s" % out)
            v.extra["machinery"] = True
            return v
        ok = r.get("class") == cls and r.get("out") == out
        if ok and cls == "runtime_error":
            ok = r.get("err", "").strip().split("\n")[-1].startswith(str(ecls) + ":")
        if not ok:
            return Verdict(False, True, "mismatch", "expected class=%s%s out=%r; got class=%s out=%r err=%r %s" % (
                cls, "(%s)" % ecls if ecls else "", out, r.get("class"), r.get("out"), r.get("err", "")[-200:], r.get("panic") or ""))
        if spec[0] == "opc":
            return Verdict(True, spec[1][2] != "none", "opc:" + spec[1][2])
        if spec[0] == "multi":
            return Verdict(True, spec[3] != "none", "multi:" + cls)
        return Verdict(True, spec[5] is not None or spec[9], "%s:%s" % (cls, "caught" if "+caught" in out else "other"))


def main(tier):
    t0 = time.time()
    chk = C04()
    chk.rule = ("product of the factors listed in checks/c04.py (quick: single tries over all placements/prefixes/loops/exits with 2 levels of raise/origin/filter, "
                "plus nested tries over 3 placements with all raise/origin/filter/exit levels; thorough: the full product); each scenario is one program; "
                "non-trivial = an error is raised (in the try or late)")
    merged = explore(chk, tier, cap_s=(1700 if tier == "thorough" else 220))
    return report.finish(chk, tier, merged, t0)
