"""C13 — inline caches are transparent.

(hist) every history of receivers (length <= bound) arriving at one property-read,
property-write, invoke, get-then-call and super-invoke site, over the alphabet
{A, B (same names, other slots), C:A, C2:C, D (field shadows method), classes made by a
factory with a run-time super class (single and stacked), number, string, list, fresh instance of a class created by the previous call and dropped,
forced full collection}; each history runs with caches on and with every lookup
forced to the slow path (hook H4).
Oracle: both runs print the same, and each step prints what that receiver prints
at a never-used site (history independence, taken from the length-1 histories).
(corpus) every corpus program: caches on == caches off.
"""
import itertools, time
from vlib.engine import Check, Verdict, explore, map_cases
from vlib import report, corpus, runner as R

PRE = """
class A { init() { self.f = 'Af'; self.g = 'Ag'; } m() { return 'Am'; } m1(x) { return 'Am1'; } static sm() { return 'Asm'; } static m() { return 'Astatic-m'; } }
class B { init() { self.g = 'Bg'; self.h = 'Bh'; self.f = 'Bf'; } m() { return 'Bm'; } m1(x) { return 'Bm1'; } static sm() { return 'Bsm'; } }
class C : A { init() { self.k = 'Ck'; super.init(); } m() { return 'Cm:' + super.m(); } m1(x) { return 'Cm1:' + super.m1(x); } }
class C2 : C { init() { self.j = 'C2j'; super.init(); } }
class D { init() { self.f = 'Df'; self.m = || 'Dfield'; self.m1 = |x| 'Dfield1'; } }
class E { init(t) { self.f = 'Ef' + t; self.m = || 'Efield' + t; self.m1 = |x| 'Efield1' + t; self.sm = || 'Esm' + t; } }
fn mk1() { class T { init() { self.f = 'T1f'; self.g = 'T1g'; } m() { return 'T1m'; } m1(x) { return 'T1m1'; } } return T(); }
fn mk2() { class T { init() { self.g = 'T2g'; self.f = 'T2f'; } m() { return 'T2m'; } m1(x) { return 'T2m1'; } } return T(); }
fn mixin(Base) { class T : Base { m() { return 'T>' + super.m(); } m1(x) { return 'T1>' + super.m1(x); } } return T; }
fn read(o) { return o.f; }
fn write(o) { o.f = 'W'; return o.f; }
fn inv(o) { return o.m(); }
fn getcall(o) { let f = o.m; return f(); }
fn inv1(o) { return o.m1(1); }
fn binop(o) { o.f += 'x'; return o.f; }
fn sinv(o) { return o.sm(); }
fn step(o) {
  try { print('r', read(o)); } catch e { print('r!', e.cls().name()); }
  try { print('i', inv(o)); } catch e { print('i!', e.cls().name()); }
  try { print('g', getcall(o)); } catch e { print('g!', e.cls().name()); }
  try { print('a', inv1(o)); } catch e { print('a!', e.cls().name()); }
  try { print('s', sinv(o)); } catch e { print('s!', e.cls().name()); }
  try { print('w', write(o)); } catch e { print('w!', e.cls().name()); }
  try { print('b', binop(o)); } catch e { print('b!', e.cls().name()); }
  try { print('r', read(o)); } catch e { print('r!', e.cls().name()); }
}
fn step_inv(o) {
  try { print('i', inv(o)); } catch e { print('i!', e.cls().name()); }
  try { print('a', inv1(o)); } catch e { print('a!', e.cls().name()); }
  try { print('s', sinv(o)); } catch e { print('s!', e.cls().name()); }
}
fn step_prop(o) {
  try { print('r', read(o)); } catch e { print('r!', e.cls().name()); }
  try { print('w', write(o)); } catch e { print('w!', e.cls().name()); }
  try { print('b', binop(o)); } catch e { print('b!', e.cls().name()); }
}
fn step_get(o) {
  try { print('g', getcall(o)); } catch e { print('g!', e.cls().name()); }
}
"""
# which sites a receiver visits: all of them, or only the invoke sites / only the property sites / only the get-then-call site
# (an entry of one cache kind must not depend on an entry of another kind keeping the class alive)
SITES = ["all", "inv", "prop", "get"]
RECV = {"E1": "step(E('1'));", "E2": "step(E('2'));",   # one class, the invoked names are fields holding a different callable per instance
        "A": "step(A());", "B": "step(B());", "C": "step(C());", "C2": "step(C2());", "D": "step(D());",
        "N": "step(5);", "S": "step('s');", "L": "step([1]);", "T1": "step(mk1());", "T2": "step(mk2());",
        "GC": "print('@@gc full'); let pad%d = [0];",
        # classes made by a factory with a run-time super class: one super-invoke site sees several super classes, twice for one receiver when stacked
        # class objects as receivers (the receiver's class is the metaclass): static method invoke sites
        "cA": "step(A);", "cB": "step(B);",
        "FA": "step(mixin(A)());", "FB": "step(mixin(B)());", "FFA": "step(mixin(mixin(A))());", "FFB": "step(mixin(mixin(B))());"}
ALPHA = ["A", "B", "C", "C2", "D", "E1", "E2", "N", "T1", "GC", "FA", "T2", "FFA", "cA", "cB", "FFB", "FB", "S", "L"]


# ---- two modules: every module has its own cache and numbers its sites from 0; a super call from one module into a method written in the other,
# call sites in both modules reached by instances of the base class and of subclasses declared in the other module
XM_BASE = ("export class Shape { init(label) { self.label = label; self.extra = 'x'; } area() { return 0; } describe() { return 'shape ' + self.label; } name() { return 'Shape'; } }\n"
           "export fn areaOf(s) { return s.area(); }\nexport fn descOf(s) { return s.describe(); }\nexport fn labelOf(s) { return s.label; }\nexport fn nameOf(s) { return s.name(); }\n")
XM_MAIN = ("import self.base:{Shape, areaOf, descOf, labelOf, nameOf};\n"
           "class Square : Shape { init(side) { super.init('square'); self.side = side; } area() { return self.side * self.side; } describe() { return 'a ' + super.describe(); } name() { return 'Square<' + super.name() + '>'; } }\n"
           "class Circle : Shape { init() { self.r = 2; super.init('circle'); } }\n"
           "class Deep : Square { init() { super.init(3); } describe() { return 'deep ' + super.describe(); } }\n"
           "fn mainArea(s) { return s.area(); }\nfn mainDesc(s) { return s.describe(); }\nfn mainLabel(s) { return s.label; }\n"
           "fn show(tag, f, o) { try { print(tag, f(o)); } catch e { print(tag + '!', e.cls().name()); } }\n")
XM_FUNS = ["areaOf", "descOf", "labelOf", "nameOf", "mainArea", "mainDesc", "mainLabel"]
XM_RECV = [("plain", "Shape('plain')"), ("square", "Square(3)"), ("circle", "Circle()"), ("deep", "Deep()")]
XM_OPS = [(f, r) for f in XM_FUNS for r in range(len(XM_RECV))]


def xm_files(hist):
    body = "".join("show('%s/%s', %s, %s);\n" % (f, XM_RECV[r][0], f, XM_RECV[r][1]) for f, r in hist)
    return {"/v/main.lay": XM_MAIN + body, "/v/base.lay": XM_BASE}


# ---- prompt sessions: every line is compiled into the same module and must continue the numbering of the cache slots of the earlier
# lines, also after another module (with a cache of its own) was imported in between
RP_FILES = {"/v/helper.lay": "export class H { init() { self.h = 'hv'; } hm() { return 'hm'; } }\nexport fn hget(o) { return o.h; }\nexport fn hcall(o) { return o.hm(); }\n"}
RP_LINES = {
    "defs1": "class P { init() { self.a = 'a-value'; self.b = 'b-value'; } name() { return 'name-result'; } kind() { return 'kind-result'; } }",
    "fns1": "fn getA(o) { return o.a; } fn callName(o) { return o.name(); }",
    "fns2": "fn getB(o) { return o.b; } fn callKind(o) { return o.kind(); } fn setB(o) { o.b = 'new-b'; return o.b; }",
    "imp": "import self.helper;",
    "useh": "print(helper.hget(helper.H()), helper.hcall(helper.H()));",
    "use1": "print(getA(P()), callName(P()));",
    "use2": "print(getB(P()), callKind(P()), setB(P()));",
    "inline": "print(P().a, P().kind(), P().b, P().name());",
    "bad": "let = ;",
    "err": "nil.nope();",
}
RP_REQ = {"defs1": ([], ["P"]), "fns1": ([], ["f1"]), "fns2": ([], ["f2"]), "imp": ([], ["helper"]), "useh": (["helper"], []), "use1": (["P", "f1"], []), "use2": (["P", "f2"], []),
          "inline": (["P"], []), "bad": ([], []), "err": ([], [])}


def rp_sessions(L):
    def rec(seq, defined):
        if seq:
            yield tuple(seq)
        if len(seq) == L:
            return
        for n in RP_LINES:
            req, defs = RP_REQ[n]
            if any(r not in defined for r in req) or any(d in defined for d in defs):
                continue
            if n in ("bad", "err") and seq and seq[-1] in ("bad", "err"):
                continue
            seq.append(n)
            yield from rec(seq, defined | set(defs))
            seq.pop()
    return rec([], frozenset())


def prog(hist, sites="all"):
    body = []
    for k, h in enumerate(hist):
        s = RECV[h]
        if h == "GC":
            s = s % k
        elif sites != "all":
            s = s.replace("step(", "step_%s(" % sites, 1)
        body.append(s)
    return PRE + "\n".join(body) + "\n"


class C13(Check):
    id = "C13"
    level = "exploration"
    rule = ("(hist) all receiver histories of length 1..L (L=4 quick, 6 thorough) over a 19 symbol alphabet (15 for length 4, 11 beyond; incl. two instances of one class whose invoked names are fields holding a different callable each), visiting all sites, and for length <= 3 (4 thorough) also only the invoke / only the property / only the get-then-call sites, each run with caches "
            "on and with hook H4 forcing every lookup to miss; oracle: equal output, and every step equals the output of that "
            "receiver at a fresh site; (xmod) two modules with caches of their own: all call histories <= 3 (4 thorough) over 7 call sites in both modules x 4 receivers (base class, subclasses declared in the other module, super calls across the module boundary); (repl) prompt sessions <= 6 (7 thorough) lines over 10 entries (class, two groups of functions with sites, a module import in between, uses, a failing and a raising line), caches on/off; (corpus) every corpus program on/off. non-trivial = history with >= 2 different receiver "
            "classes at the site (or a corpus program containing a property/invoke site)")
    assumptions = ["history runs use the harness allocator's eager-reuse modes (exact size classes, FIFO and LIFO hand-out order), so a freed "
                   "class block is deterministically re-used by a later class; other reuse orders are not explored"]

    def __init__(self, single, progs):
        self.single = single
        self.progs = progs

    def gen(self, tier):
        L = 6 if tier == "thorough" else 4
        for n in range(1, L + 1):
            alpha = ALPHA if n <= 3 else (ALPHA[:15] if n == 4 else ALPHA[:11])
            for h in itertools.product(alpha, repeat=n):
                yield ("hist", h)
                if n <= (4 if tier == "thorough" else 3):
                    for st in SITES[1:]:
                        yield ("hist", h, st)
        for n in range(1, (4 if tier == "thorough" else 3) + 1):
            ops = XM_OPS if n <= 2 else [o for o in XM_OPS if o[0] in ("areaOf", "descOf", "nameOf", "mainDesc")]
            for h in itertools.product(ops, repeat=n):
                yield ("xmod", h)
        for sess in rp_sessions(7 if tier == "thorough" else 6):
            if sum(1 for n in sess if n.startswith("use") or n == "inline") >= 1 and len(sess) >= 3:
                yield ("repl", sess)
        for i in range(len(self.progs)):
            yield ("corpus", i)

    def describe(self, spec):
        if spec[0] == "repl":
            return "prompt session: " + " / ".join(spec[1])
        if spec[0] == "xmod":
            return "two modules: " + " ".join("%s(%s)" % (f, XM_RECV[r][0]) for f, r in spec[1])
        return ("hist " + " ".join(spec[1]) + (" (sites: %s)" % spec[2] if len(spec) > 2 else "")) if spec[0] == "hist" else "corpus " + self.progs[spec[1]][0]

    def build(self, spec):
        if spec[0] == "repl":
            lines = [RP_LINES[n] for n in spec[1]]
            return [{"repl": lines, "files": RP_FILES, "entry": "/v/main.lay", "step_limit": 2000000}, {"repl": lines, "files": RP_FILES, "entry": "/v/main.lay", "cache_off": True, "step_limit": 2000000}], None
        if spec[0] == "xmod":
            files = xm_files(spec[1])
            return [{"files": files, "entry": "/v/main.lay", "step_limit": 2000000}, {"files": files, "entry": "/v/main.lay", "cache_off": True, "step_limit": 2000000}], None
        if spec[0] == "hist":
            src = prog(spec[1], spec[2] if len(spec) > 2 else "all")
            return [{"src": src, "step_limit": 2000000, "alloc": "reuse_fifo"}, {"src": src, "cache_off": True, "step_limit": 2000000, "alloc": "reuse_fifo"},
                    {"src": src, "step_limit": 2000000, "alloc": "reuse_lifo"}], None
        name, files, entry = self.progs[spec[1]]
        return [{"files": files, "entry": entry, "step_limit": 3000000}, {"files": files, "entry": entry, "cache_off": True, "step_limit": 3000000}], None

    def judge(self, spec, ctx, rs):
        on, off = rs[0], rs[1]
        if len(rs) > 2 and R.obs_key(rs[2]) != R.obs_key(off):
            on = rs[2]
        if R.obs_key(on) != R.obs_key(off):
            return Verdict(False, True, "on!=off", "caches on and off differ: on class=%s out=%r err=%r | off class=%s out=%r err=%r %s" % (
                on.get("class"), on.get("out", "")[-300:], on.get("err", "")[-200:], off.get("class"), off.get("out", "")[-300:], off.get("err", "")[-200:],
                on.get("panic") or on.get("signal") or ""))
        if spec[0] == "repl":
            return Verdict(True, True, "ok")
        if spec[0] == "xmod":
            exp = "".join(self.single[("xmod", o)] for o in spec[1])
            if on.get("class") != "ok" or on.get("out") != exp:
                return Verdict(False, True, "history-dependent", "output depends on the call history: expected %r got class=%s %r %s" % (exp[-400:], on.get("class"), on.get("out", "")[-400:], on.get("panic") or ""))
            return Verdict(True, len(set(spec[1])) >= 2, "ok")
        if spec[0] == "hist":
            exp = "".join(self.single[(spec[2] if len(spec) > 2 else "all", h)] for h in spec[1])
            if on.get("class") != "ok" or on.get("out") != exp:
                return Verdict(False, True, "history-dependent", "output depends on the receiver history: expected %r got class=%s %r %s" % (
                    exp[-400:], on.get("class"), on.get("out", "")[-400:], on.get("panic") or ""))
            distinct = len(set(spec[1]) - {"GC"})
            return Verdict(True, distinct >= 2, "ok")
        src = "".join(self.progs[spec[1]][1].values())
        return Verdict(True, "." in src, "corpus:" + str(on.get("class")))


def main(tier):
    t0 = time.time()
    # length-1 histories with caches bypassed define what each receiver prints at a fresh site
    keys = [(st, a) for st in SITES for a in ALPHA]
    singles = map_cases([{"src": prog((a,), st), "cache_off": True, "step_limit": 2000000} for st, a in keys])
    single = {}
    for k, r in zip(keys, singles):
        if r.get("class") != "ok":
            print("MACHINERY: single receiver program for %s did not run: %s %s" % (k, r.get("class"), r.get("err", "")[:300]))
            return 2
        single[k] = r["out"]
    xs = map_cases([{"files": xm_files((o,)), "entry": "/v/main.lay", "cache_off": True, "step_limit": 2000000} for o in XM_OPS])
    for o, r in zip(XM_OPS, xs):
        if r.get("class") != "ok":
            print("MACHINERY: two-module single call program for %s did not run: %s %s" % (o, r.get("class"), r.get("err", "")[:300]))
            return 2
        single[("xmod", o)] = r["out"]
    progs = corpus.rich() + corpus.fixtures()
    try:
        from vlib import spaces
        progs += spaces.small_programs(tier)
    except ImportError:
        pass
    chk = C13(single, progs)
    merged = explore(chk, tier, cap_s=(1500 if tier == "thorough" else 200))
    return report.finish(chk, tier, merged, t0, coverage_extra={"single_receiver_outputs": {"%s/%s" % (k[0], k[1]): v for k, v in single.items()}})
