"""C05 — garbage collection is invisible.

For every driver program P with N allocation points (counted by hook H1 from
Vm::run on, compilation included) the collection schedules
  never | every x {natural, nursery, full} | period k | every single point x {nursery, full}
  | (thorough) every pair of points x kinds (all pairs for N <= 60, window 12 otherwise)
are run under the quarantining + poisoning allocator with the liveness oracle
(hook H2) armed. Oracle: identical exit class/status/stdout/stderr to the
schedule `never`; no heap-validity panic; no signal.
"""
import itertools, os, time
from vlib.engine import Check, Verdict, explore, map_cases
from vlib import report, corpus, runner as R

STEP = 3000000


def programs(tier):
    from vlib import reach
    progs = corpus.rich() + reach.holders() + reach.channel_histories(7 if tier == "thorough" else 6) + corpus.fixtures()
    try:
        from vlib import spaces
        progs += spaces.small_programs(tier)
    except ImportError:
        pass
    return progs


class C05(Check):
    id = "C05"
    level = "fault_enumeration"
    horizon_ms = 20000
    rule = ("driver programs = hand written feature programs + the reachability space (one program per holder kind through which a fresh object stays reachable; every non-blocking send/receive history of length <= 6 (thorough 7) on buffered channels of capacity 1-3 with fresh payloads) + the repository's fixture scripts (+ smallest-bound slices of the "
            "generated program spaces); per program with N allocation points: schedules never, every x {natural,nursery,full}, "
            "period 2/3/5/7 (full), every single allocation point x {nursery, full}; thorough adds every pair of points "
            "(N<=60: all pairs, else window 12) x {full+full, nursery+full} and the no-poison quarantine mode; the reachability and channel-history programs "
            "(thorough: all programs) are run a second time under an eager-reuse allocator (a released block is handed out again at once); "
            "allocator = quarantine+poison with liveness oracle; oracle = observation identical to schedule `never`. "
            "non-trivial = a (program, schedule) in which a collection ran and released at least one block")
    assumptions = ["collections can only start at allocation points, so a set of allocation points subsumes every byte threshold",
                   "deviation bound: at most 2 forced collections per run besides the every/period schedules",
                   "map printing order depends on addresses; corpus programs that print multi-entry maps keyed by objects are not used"]

    def __init__(self, progs, base, build_kind="checked", tier="quick", alloc="poison"):
        self.progs = progs
        self.base = base
        self.build_kind = build_kind
        self.tier = tier
        self.alloc = alloc

    def gen(self, tier):
        th = tier == "thorough"
        for i, (name, files, entry) in enumerate(self.progs):
            b = self.base[i]
            if b is None:
                continue
            n = b["allocs"]
            for kind in (0, 1, 2):
                yield (i, "every", kind, ())
            for k in (2, 3, 5, 7):
                yield (i, "period", 2, (k,))
            for p in range(n):
                yield (i, "at", 0, ((p, 1),))
                yield (i, "at", 0, ((p, 2),))
            if th:
                if n <= 60:
                    pairs = itertools.combinations(range(n), 2)
                else:
                    pairs = ((a, b2) for a in range(n) for b2 in range(a + 1, min(n, a + 13)))
                for a, b2 in pairs:
                    yield (i, "at", 0, ((a, 2), (b2, 2)))
                    yield (i, "at", 0, ((a, 1), (b2, 2)))

    def describe(self, spec):
        i, mode, kind, pts = spec
        return "%s | schedule=%s kind=%d points=%s" % (self.progs[i][0], mode, kind, list(pts))

    def build(self, spec):
        i, mode, kind, pts = spec
        name, files, entry = self.progs[i]
        gc = {"mode": mode, "kind": kind}
        if mode == "at":
            gc["points"] = [list(p) for p in pts]
        if mode == "period":
            gc["period"] = pts[0]
        return [{"files": files, "entry": entry, "gc": gc, "alloc": self.alloc, "step_limit": STEP}], None

    def judge(self, spec, ctx, rs):
        i = spec[0]
        r = rs[0]
        b = self.base[i]
        nontriv = r.get("collections", 0) > 0 and r.get("quarantined", 0) > 0
        extra = {"collections_with_temp_roots": 1 if r.get("collections_tmp", 0) > 0 else 0}
        if r.get("q_overflow"):
            extra["quarantine_overflow"] = 1
        if R.obs_key(r) == b["key"]:
            return Verdict(True, nontriv, b["key"][0], extra=extra)
        why = "schedule changes behaviour: expected class=%s code=%s out=%r err=%r; got class=%s code=%s out=%r err=%r %s" % (
            b["key"][0], b["key"][1], b["key"][2][-160:], b["key"][3][-160:], r.get("class"), r.get("code"),
            R.norm(r.get("out", ""))[-160:], R.norm(r.get("err", ""))[-160:], r.get("panic") or r.get("signal") or "")
        return Verdict(False, True, "diff:" + str(r.get("class")), why, extra=extra)


def baseline(progs, build, alloc="poison"):
    cases = [{"files": f, "entry": e, "gc": {"mode": "never"}, "alloc": alloc, "step_limit": STEP} for _, f, e in progs]
    res = map_cases(cases, build=build, horizon_ms=20000)
    base = []
    for r in res:
        if r is None or r.get("class") in ("timeout", "signal", "panic", "step_limit"):
            base.append(None)  # not a usable driver (C16's business), skip
        else:
            base.append({"allocs": r.get("allocs", 0), "key": R.obs_key(r)})
    return base


BUILDS = {"quick": ["checked"], "thorough": ["checked", "nan"]}


def main(tier):
    t0 = time.time()
    progs = programs(tier)
    base = baseline(progs, "checked")
    chk = C05(progs, base, "checked", tier)
    merged = explore(chk, tier, cap_s=(1800 if tier == "thorough" else 200))
    cov = {"driver_programs": len(progs), "usable_drivers": sum(1 for b in base if b), "allocation_points_total": sum(b["allocs"] for b in base if b)}
    if tier == "thorough":
        for label, build, alloc in (("nan_boxing", "nan", "poison"), ("no_poison", "checked", "quarantine")):
            b2 = baseline(progs, build, alloc)
            c2 = C05(progs, b2, build, "quick", alloc)
            m2 = explore(c2, "quick", cap_s=900)
            cov[label] = {"evaluations": m2["evaluations"], "failing": m2["fail_count"], "capped": m2["capped"]}
            for f in m2["failures"][:10]:
                f["reason"] = "[%s] %s" % (label, f["reason"])
            merged["failures"].extend(m2["failures"][:10])
            merged["fail_count"] += m2["fail_count"]
            merged["evaluations"] += m2["evaluations"]
            merged["nontrivial"] += m2["nontrivial"]
    # eager reuse: a released block is handed out again by the next request of its size class, so a reference that survived its object
    # (a table entry, a cached pointer) reads another object's bytes instead of poison; reachability and channel-history programs (quick), all (thorough)
    sub = [p for p in progs if tier == "thorough" or p[0].startswith(("reach:", "chanhist"))]
    for alloc in (("reuse_lifo", "reuse_fifo") if tier == "thorough" else ("reuse_lifo",)):
        b3 = baseline(sub, "checked", alloc)
        c3 = C05(sub, b3, "checked", "quick", alloc)
        m3 = explore(c3, "quick", cap_s=900)
        cov["eager_" + alloc] = {"programs": len(sub), "evaluations": m3["evaluations"], "failing": m3["fail_count"], "capped": m3["capped"]}
        for f in m3["failures"][:10]:
            f["reason"] = "[allocator %s] %s" % (alloc, f["reason"])
        merged["failures"].extend(m3["failures"][:10])
        merged["fail_count"] += m3["fail_count"]
        merged["evaluations"] += m3["evaluations"]
        merged["nontrivial"] += m3["nontrivial"]
        merged["capped"] = merged["capped"] or m3["capped"]
    return report.finish(chk, tier, merged, t0, coverage_extra=cov)
