"""C14 — both value representations implement the same language.

(num) every ordered pair over an alphabet of special numbers (+-0, infinities,
NaN, 2^53, 2^53+1, subnormal, overflow) and other value kinds, observed through
every comparison and arithmetic operator, map-key round trips, list/tuple
has/index, str, parse and rounding; (corpus) every corpus program.
Each case runs in the tagged-enum build and in the NaN-boxed build.
Oracle: identical observations, and number comparisons follow IEEE-754
(reference: Python floats).
"""
import itertools, math, time
from vlib.engine import Check, Verdict, explore
from vlib import report, corpus, runner as R

NUMS = [("0", 0.0), ("(0 * -1)", -0.0), ("1", 1.0), ("(0.1 + 0.2)", 0.1 + 0.2), ("0.3", 0.3), ("(1 / 0)", math.inf), ("(-1 / 0)", -math.inf),
        ("(0 / 0)", math.nan), ("(-(0 / 0))", math.nan), ("9007199254740992", 2.0 ** 53), ("9007199254740993", 9007199254740993.0),
        ("(1e308 * 10)", math.inf), ("5e-324", 5e-324), ("1.5", 1.5), ("-1", -1.0), ("1e21", 1e21), ("255", 255.0), ("(2 - 1)", 1.0)]
OTHERS = ["nil", "true", "false", "'a'", "''", "[1]", "'1'"]


def _ieee(op, a, b):
    if op == "+":
        return a + b
    if op == "-":
        return a - b
    if op == "*":
        return a * b
    if b == 0:
        if a == 0 or math.isnan(a):
            return math.nan
        return math.copysign(math.inf, a) * math.copysign(1.0, b)
    try:
        return a / b
    except OverflowError:
        return math.copysign(math.inf, a) * math.copysign(1.0, b)


def _derived():
    """numbers computed at run time from two of NUMS: the bit patterns arithmetic can produce (signed NaNs, signed zeros, infinities, subnormals,
    sums that round) rather than the ones a literal can. One expression per (operator, operand pair); REPS keeps one per distinct IEEE result."""
    import struct
    out, reps, seen = [], [], set()
    for (na, va), (nb, vb) in itertools.product(NUMS, repeat=2):
        for op in "+-*/":
            v = _ieee(op, va, vb)
            name = "(%s %s %s)" % (na, op, nb)
            out.append((name, v))
            bits = struct.pack(">d", v) if not math.isnan(v) else b"nan" + bytes([int(math.copysign(1, va) < 0) ^ int(math.copysign(1, vb) < 0), "+-*/".index(op)])
            if bits not in seen:
                seen.add(bits)
                reps.append((name, v))
    return out, reps


DERIVED, REPS = _derived()
CMP = [("==", lambda a, b: a == b), ("!=", lambda a, b: a != b), ("<", lambda a, b: a < b), ("<=", lambda a, b: a <= b),
       (">", lambda a, b: a > b), (">=", lambda a, b: a >= b)]


def pair_prog(a, b):
    lines = ["let a = %s; let b = %s;" % (a, b)]
    for op, _ in CMP:
        lines.append("try { print('%s', a %s b); } catch e { print('%s!', e.cls().name()); }" % (op, op, op))
    for op in "+-*/":
        lines.append("try { print('%s', a %s b); } catch e { print('%s!', e.cls().name()); }" % (op, op, op))
    lines.append("let m = {}; m[a] = 'A'; m[b] = 'B'; print('m', m.len(), m[a], m[b], m.has(a), m.has(b), m.get(a), m.get(b));")
    lines.append("print('l', [a].has(b), [a].index(b), [a, b].index(b), (a, a).has(b), (a, b).index(b));")
    lines.append("print('k', {a: 1}.has(b), {a: 1}.get(b));")
    # the same key questions in maps large enough for the hash (not only equality) to decide the bucket
    for n in (20, 150, 600):
        lines.append("let big%d = {}; for i in %d.times() { big%d[i + 1000] = i; big%d['s' + i.str()] = i; } big%d[a] = 'A'; let had%d = big%d.has(b); big%d[b] = 'B'; "
                     "print('g%d', big%d.len(), big%d[a], big%d[b], had%d, big%d.get(a), [big%d.remove(a)], big%d.has(b), big%d.len());" % ((n,) * 17))
    lines.append("try { print('r', m.remove(a), m.len()); } catch e { print('r!', e.cls().name()); }")
    lines.append("print('eq', a.equals(b), [a] == [b], a == a, b == b, a != a);") if False else None
    lines.append("print('e', a == a, b == b, a != a, !(a == b) == (a != b));")
    return "\n".join(l for l in lines if l) + "\n"


def single_prog(a):
    return ("let a = %s;\n" % a +
            "print('s', a, a.str(), '${a}', [a], (a, 1), {1: a});\n"
            "try { print('f', a.floor(), a.ceil(), a.round()); } catch e { print('f!', e.cls().name()); }\n"
            "try { print('p', Number.parse(a.str()) == a, Number.parse(a.str())); } catch e { print('p!', e.cls().name()); }\n"
            "try { print('n', -a, !a, a ? 1 : 2, a && 3, a || 4); } catch e { print('n!', e.cls().name()); }\n"
            "try { print('c', Number.cmp(a, a), Number.cmp(a, 1), Number.cmp(1, a)); } catch e { print('c!', e.cls().name()); }\n"
            "try { let n = 0; for i in a.times() { n += 1; if n > 3 { break; } } print('t', n); } catch e { print('t!', e.cls().name()); }\n"
            "try { print('u', 0.until(a).take(2).list(), a.until(2).take(2).list()); } catch e { print('u!', e.cls().name()); }\n"
            "try { print('i', [1, 2, 3][a], 'abc'[a]); } catch e { print('i!', e.cls().name()); }\n"
            "try { print('x', [1, 2, 3].slice(a), [1, 2].iter().take(a).list()); } catch e { print('x!', e.cls().name()); }\n"
            "let l = [3, a, 1]; try { print('o', l.sort(|x, y| Number.cmp(x, y))); } catch e { print('o!', e.cls().name()); }\n")


class C14(Check):
    id = "C14"
    level = "exploration"
    rule = ("(num) all ordered pairs over %d special-number expressions + %d other values through == != < <= > >= + - * /, map key "
            "round trips, list/tuple has/index, and all single values through str/interpolation/rounding/parse/cmp/times/until/index/"
            "slice/sort; (corpus) corpus programs; every case in the enum build and the NaN-boxed build; oracle = equal observations "
            "and IEEE answers for number comparisons. non-trivial = a case involving a number whose bit pattern is special "
            "(+-0, inf, NaN, >=2^53, subnormal) or a corpus program that executed" % (len(NUMS), len(OTHERS)))
    assumptions = ["number formatting is Rust's Display in both builds (trusted, shared)", "reference for comparisons: IEEE-754 via Python floats"]

    def __init__(self, progs, build_kind):
        self.progs = progs
        self.build_kind = build_kind

    def gen(self, tier):
        vals = [n for n, _ in NUMS] + OTHERS
        for a, b in itertools.product(vals, repeat=2):
            yield ("pair", a, b)
        for a in vals:
            yield ("single", a)
        # numbers produced by arithmetic at run time
        specials = [n for n, v in NUMS if v == 0 or math.isinf(v) or math.isnan(v)]
        for a, _ in DERIVED:
            yield ("single", a)
        for a, _ in (DERIVED if tier == "thorough" else REPS):
            for b in (vals if tier == "thorough" else specials + ["nil", "'1'"]):
                yield ("pair", a, b)
                yield ("pair", b, a)
        if tier == "thorough":
            for (a, _), (b, _) in itertools.product(REPS, repeat=2):
                yield ("pair", a, b)
        for i in range(len(self.progs)):
            yield ("corpus", i)

    def describe(self, spec):
        return " ".join(str(x) for x in spec) if spec[0] != "corpus" else "corpus " + self.progs[spec[1]][0]

    def build(self, spec):
        if spec[0] == "pair":
            return [{"src": pair_prog(spec[1], spec[2]), "step_limit": 1000000}], None
        if spec[0] == "single":
            return [{"src": single_prog(spec[1]), "step_limit": 1000000}], None
        name, files, entry = self.progs[spec[1]]
        return [{"files": files, "entry": entry, "step_limit": 3000000}], None

    def judge(self, spec, ctx, rs):
        # used per build: returns the observation as the outcome; the cross-build comparison happens in main()
        r = rs[0]
        return Verdict(True, True, None, extra={})


BUILDS = ["checked", "nan"]


def main(tier):
    t0 = time.time()
    from vlib.engine import map_cases
    progs = corpus.rich() + corpus.fixtures()
    try:
        from vlib import spaces
        progs += spaces.small_programs(tier)
    except ImportError:
        pass
    chk = C14(progs, "checked")
    specs = list(chk.gen(tier))
    cases = [chk.build(s)[0][0] for s in specs]
    enum_r = map_cases(cases, build="checked", horizon_ms=20000)
    nan_r = map_cases(cases, build="nan", horizon_ms=20000)
    numd = dict(NUMS)
    numd.update(dict(DERIVED))
    merged = {"specs": len(specs), "evaluations": 2 * len(specs), "nontrivial": 0, "outcomes": {}, "failures": [], "fail_count": 0, "known": {},
              "samples": [], "capped": False, "restarts": 0, "classes": {}, "extra": {}, "errors": []}
    special = {n for n, v in NUMS + DERIVED if v == 0 or math.isinf(v) or math.isnan(v) or abs(v) >= 2 ** 53 or (0 < abs(v) < 1e-300)}
    for idx, (spec, c, e, n) in enumerate(zip(specs, cases, enum_r, nan_r)):
        for r in (e, n):
            merged["classes"][r.get("class")] = merged["classes"].get(r.get("class"), 0) + 1
        reason = None
        if R.obs_key(e) != R.obs_key(n):
            reason = "representations disagree: enum class=%s out=%r err=%r | nan_boxing class=%s out=%r err=%r %s" % (
                e.get("class"), e.get("out", "")[-500:], e.get("err", "")[-200:], n.get("class"), n.get("out", "")[-500:], n.get("err", "")[-200:], n.get("panic") or e.get("panic") or "")
        elif spec[0] == "pair" and spec[1] in numd and spec[2] in numd:
            a, b = numd[spec[1]], numd[spec[2]]
            out = e.get("out", "")
            for op, f in CMP:
                want = "%s %s\n" % (op, "true" if f(a, b) else "false")
                if want not in out:
                    reason = "IEEE comparison wrong in both builds: %s %s %s expected %r; output %r" % (spec[1], op, spec[2], want, out[:200])
                    break
        if spec[0] != "corpus":
            if spec[1] in special or (len(spec) > 2 and spec[2] in special):
                merged["nontrivial"] += 1
        elif e.get("class") in ("ok", "runtime_error", "deadlock"):
            merged["nontrivial"] += 1
        k = "%s:%s" % (spec[0], e.get("class"))
        merged["outcomes"][k] = merged["outcomes"].get(k, 0) + 1
        if len(merged["samples"]) < 3 and idx % 211 == 5:
            merged["samples"].append({"spec": chk.describe(spec), "case": {k2: (v if not isinstance(v, str) else v[:600]) for k2, v in c.items() if k2 != "files"}, "enum_out": e.get("out", "")[:400], "nan_out": n.get("out", "")[:400]})
        if reason:
            merged["fail_count"] += 1
            if len(merged["failures"]) < 40:
                merged["failures"].append({"index": idx, "spec": chk.describe(spec), "reason": reason, "cases": [dict(c)], "observed": [], "spec_b64": None})
    merged["wall_s"] = time.time() - t0

    def rejudge(f, results):
        # replayed in the checked (enum) build by report.confirm; compare with a nan replay
        c = dict(f["cases"][0])
        rn = R.Runner(build="nan", horizon_ms=20000)
        try:
            n = rn.run_one(dict(c, id="nan"))
        finally:
            rn.close()
        e = results[0]
        if R.obs_key(e) != R.obs_key(n):
            return Verdict(False, True, None, f["reason"])
        if "IEEE comparison wrong" in f["reason"]:
            return Verdict(False, True, None, f["reason"])
        return Verdict(True)
    return report.finish(chk, tier, merged, t0, rejudge=rejudge)
