"""C20 — garbage is reclaimed and heap accounting is exact after a full collection.

For each managed kind a loop creates and drops garbage of that kind next to a
fixed live set, for n in {0,1,2,4,16,64,256} iterations and every sequence of <= 3
forced collections from {nursery, full} at iteration boundaries; the run ends
with a forced full collection and the runtime's books are compared with the
harness allocator's own records (hook H3 + harness allocator). The same runs are also stopped
without the final collection (n in {0,1,4,64}): bytes_allocated, which the collection trigger
compares with next_gc, must equal the sum of the blocks owned at that point too. Prompt sessions: 8 kinds
of lines that leave nothing behind x n in {0,1,4,16,64,128} lines: no growth of blocks, bytes or temporary roots.
Checked per run: reported bytes == sum of the sizes the allocator handed out for
the blocks the runtime owns; per-block size agreement; intern table == live
string blocks (keys inside their blocks); next_gc == 2 x bytes; every release
with the size/alignment of its acquisition. Checked across n: identical block
count and byte total (bounded live set => bounded memory).
"""
import itertools, time
from vlib.engine import Check, Verdict, explore
from vlib import report, corpus, runner as R

KINDS = {
    "string": "let s = 'g' + i.str() + 'x';",
    "string_same": "let s = 'a' + 'b'; let t = s + s;",
    "interp": "let s = 'v${i}w${i}';",
    "list": "let l = [i, [i], 'l' + i.str()];",
    "list_grow": "let l = [1, 2, 3, 4]; l.push(i); l.push(i); l.push(i); l.push(i); l.push(i); let m = [l]; l.push(6); l.insert(0, 7);",
    "map": "let m = {i: [i], 'k': i}; m[i + 1] = 'v' + i.str(); m.remove(i);",
    "tuple": "let t = (i, (i, 'a'), [i]);",
    "closure": "let c = || i + 1; let d = |x| { let y = x; return || y + i; }; d(1)();",
    "class": "class T { init(v) { self.v = v; } m() { return self.v; } static s() { return 1; } } let o = T(i); o.m(); T.s();",
    "subclass": "class P { init() { self.a = [i]; } } class Q : P { init() { super.init(); self.b = 'b' + i.str(); } } Q();",
    "method": "let b = [i].push; b(1); let o = Holder(); let f = o.get; f();",
    "iter": "let e = [i, i].iter().map(|x| x + 1).filter(|x| x > 0); e.next(); let r = 3.times().zip(['a'].iter()).list(); 'abc'.iter().skip(1).take(1).list();",
    "channel": "let c = chan(2); c <- [i]; c <- 's' + i.str(); let d = chan(); c.close();",
    "fiber": "fn w(c, v) { c <- [v]; } launch w(kc, i); let got = <- kc;",
    "fiber_sync": "fn w(c, v) { c <- 's' + v.str(); } launch w(ks, i); let got = <- ks;",
    "fiber_closure": "let v = [i]; launch (|| { kc <- v; })(); let got = <- kc;",
    "channel_on_fiber": "let c = chan(1); fn w(c, v) { c <- v; } launch w(c, i); let got = <- c;",
    "error": "try { raise Error('e' + i.str()); } catch e { let bt = e.backTrace; }",
    "error_deep": "fn f(n) { if n == 0 { [][1]; } return f(n - 1); } try { f(5); } catch e { let m = e.message; }",
    "error_native": "try { [1].iter().each(|x| { raise ValueError('cb'); }); } catch e { let i2 = e.inner; }",
    "instance_fields": "let o = Holder(); o.x = [i]; o.y = 's' + i.str();",
    "split": "let p = ('a,b,' + i.str()).split(',').list(); let u = p[2].upCase();",
    "sort": "let l = [3, 1, i].sort(|a, b| Number.cmp(a, b)); l.rev(); l.slice(1);",
    "number_str": "let s = (i + 0.5).str(); let n = Number.parse(s);",
    "stackgrow": "fn deep(n) { let a = [n]; if n == 0 { return 0; } return deep(n - 1) + a[0]; } deep(40);",
    "collect": "let l = 50.times().into(List.collect); let t = 20.times().list(); let u = [1, 2, 3].iter().into(Tuple.collect); let e = 0.times().list(); l.push(i);",
    "list_big": "let l = []; for j in 40.times() { l.push(j); } let m = l.slice(5); let r = l.rev();",
    # short-lived fibers that park on a long-lived channel and are woken another way (their own child finishing): nothing of them may stay behind
    "worker_with_helper": "fn helper() { let h = [1]; } fn worker(c, v) { launch helper(); c <- [v, 'w' + v.str()]; } launch worker(kc, i); let got = <- kc;",
    "worker_blocked_send": "fn helper() { let h = [1]; } fn worker(c, v) { launch helper(); c <- [v]; } kc <- [0]; launch worker(kc, i); let g1 = <- kc; let g2 = <- kc;",
    "two_workers_fanin": "fn helper() { let h = [1]; } fn worker(c, v) { launch helper(); c <- [v]; launch helper(); } launch worker(kc, i); launch worker(kc, i + 1); let g1 = <- kc; let g2 = <- kc;",
    "four_workers_fanin": "fn helper(x) { return x; } fn worker(c, v) { let pay = [v, v + 1, v + 2]; launch helper(v); c <- pay[0]; } for k in 4.times() { launch worker(kc, k); } let sum = 0; for k in 4.times() { sum = sum + (<- kc); }",
    "three_workers_two_helpers": "fn helper(x) { return x; } fn worker(c, v) { launch helper(v); launch helper(v); c <- [v]; } for k in 3.times() { launch worker(kc, k); } for k in 3.times() { let g = <- kc; }",
    "sync_worker_helper": "fn helper() { let h = [1]; } fn worker(c, v) { launch helper(); c <- 's' + v.str(); } launch worker(ks, i); let got = <- ks;",
    "receiver_worker": "fn helper() { let h = [1]; } fn taker(c, d) { launch helper(); let v = <- c; d <- [v]; } launch taker(kc, ks); kc <- [i]; let got = <- ks;",
    # an error that comes out of an iterator adaptor driven by a for loop (no native call frame around it): nothing may stay rooted
    "for_zip_err": "try { for p in [i, 2].iter().zip([1, 2].iter().map(|x| { raise Error('z' + i.str()); })) { } } catch e { }",
    "for_zip_err_second": "try { for p in [[i], 2].iter().zip([1, 2].iter().map(|x| { if x == 2 { raise Error('z'); } return [x]; })) { } } catch e { }",
    "for_map_err": "try { for p in [[i], 2].iter().map(|x| { raise Error('m' + i.str()); }) { } } catch e { }",
    "for_filter_err": "try { for p in [[i], 2].iter().filter(|x| { raise Error('f'); }) { } } catch e { }",
    "for_chain_err": "try { for p in [[i]].iter().chain([1].iter().map(|x| { raise Error('c'); })) { } } catch e { }",
    "for_take_err": "try { for p in [[i], 2].iter().map(|x| { raise Error('t'); }).take(1) { } } catch e { }",
    "for_skip_err": "try { for p in [[i], 2, 3].iter().skip(1).map(|x| { raise Error('s'); }) { } } catch e { }",
    "for_zip3_err": "try { for p in [[i]].iter().zip([1].iter(), [1].iter().map(|x| { raise Error('z3'); })) { } } catch e { }",
    "for_nested_zip_err": "try { for p in [[i]].iter().zip([1].iter().zip([1].iter().map(|x| { raise Error('zz'); }))) { } } catch e { }",
    "next_zip_err": "let it = [[i], 2].iter().zip([1, 2].iter().map(|x| { raise Error('z'); })); try { it.next(); } catch e { }",
    # strings that are only held by a native's temporary root while a collection runs inside that native, and that stay alive afterwards
    # (bounded: the result replaces the previous one): the intern table must still be exactly the live strings at the end
    "strings_built_in_native": "let l = 4.times().map(|j| { if j == 2 { print('@@gc full'); } return 'sb' + j.str() + '-' + i.str(); }).list(); keep[0].x = l;",
    "strings_built_in_native_nursery": "let l = 4.times().map(|j| { if j == 2 { print('@@gc nursery'); } return 'sn' + j.str() + '-' + i.str(); }).into(List.collect); keep[0].y = l;",
    "strings_joined_in_reduce": "let s = 4.times().reduce('', |a, j| { if j == 2 { print('@@gc full'); } return a + 'r' + j.str(); }); keep[0].x = [s, 'r' + i.str()];",
    "regexp": "let r = RegExp('a' + i.str()); r.test('a1'); r.captures('a' + i.str());",
}
PRE = "import std.regexp:{RegExp};\nclass Holder { init() { self.x = nil; self.y = nil; } get() { return self.x; } }\nlet keep = [Holder(), 'live' + 'set', {1: [2]}, (3, 4), || 5];\nlet kc = chan(1); let ks = chan();\n"
NS = [0, 1, 2, 4, 16, 64, 256]
MID_NS = [0, 1, 4, 64]
SEQS = [()] + [s for n in (1, 2, 3) for s in itertools.product("nf", repeat=n)]


SEQS_T = SEQS + [s for n in (4, 5) for s in itertools.product("nf", repeat=n)]
PAIRABLE = [k for k in KINDS if k not in ("channel", "channel_on_fiber")]   # (these two are the region of the open finding KF-C20-chanleak)


def prog(kind, n, seq):
    if "+" in kind:
        # two kinds of garbage produced side by side in every iteration
        a, b = kind.split("+")
        marks = "".join("if i == %d { print('@@gc %s'); } " % (j, "nursery" if k == "n" else "full") for j, k in enumerate(seq))
        return PRE + "fn work(i) { %s }\nfn work2(i) { %s }\nlet i = 0; while i < %-4d { work(i); work2(i); %si += 1; }\nprint('end', keep.len());\n" % (KINDS[a], KINDS[b], n, marks)
    body = KINDS[kind]
    marks = "".join("if i == %d { print('@@gc %s'); } " % (j, "nursery" if k == "n" else "full") for j, k in enumerate(seq))
    return PRE + "fn work(i) { %s }\nlet i = 0; while i < %-4d { work(i); %si += 1; }\nprint('end', keep.len());\n" % (body, n, marks)


# the prompt: every line is compiled and run on its own; a line that leaves nothing behind must not make the heap grow
REPL_KINDS = {
    "repl_expr": "print(a + %d);",
    "repl_literals": "let junk = ['lit%d', %d.5, [%d]]; junk = nil;",
    "repl_call_earlier": "print(f(%d).len());",
    "repl_lambda": "print((|x| x + %d)(1));",
    "repl_class_use": "print(K(%d).get());",
    "repl_error": "nil.nope%d();",
    "repl_compile_error": "let = %d;",
    "repl_interp": "print('v${a}w${%d}');",
}
REPL_PRE = ["let a = 1;", "fn f(n) { return [n, 's' + n.str()]; }", "class K { init(v) { self.v = v; } get() { return [self.v]; } }", "let junk = nil;"]
REPL_NS = [0, 1, 4, 16, 64, 128]


def repl_lines(kind, n):
    return REPL_PRE + [REPL_KINDS[kind].replace("%d", str(i)) for i in range(n)] + ["print('end', a);"]


class C20(Check):
    id = "C20"
    level = "fault_enumeration"
    rule = ("one garbage-producing loop per managed kind (%d kinds) x n in %s iterations x every sequence of <= 3 forced collections "
            "from {nursery, full} at iteration boundaries (%d sequences), each ended by a forced full collection (and, for n in {0,1,4,64}, also stopped without it: books == blocks between collections); spec = (kind, "
            "sequence), its cases are the runs for all n. non-trivial = the runs of the spec released at least one block during a "
            "collection and the final statistics were compared; thorough tier: sequences of <= 5 collections (%d) and every ordered pair of the %d kinds outside the open finding's region "
            "produced side by side in each iteration x the 7 sequences of <= 2 collections" % (len(KINDS), NS, len(SEQS), len(SEQS_T), len(PAIRABLE)))
    assumptions = ["block sizes are taken from the harness allocator's own header (independent of Laythe's size() code)",
                   "the std-lib's permanent objects are part of the live set", "steady state is decided as equal block counts (bytes within 64) for n in {16, 64, 256}"]

    def gen(self, tier):
        for kind in KINDS:
            for seq in (SEQS_T if tier == "thorough" else SEQS):
                yield (kind, seq)
        if tier == "thorough":
            for a, b in itertools.product(PAIRABLE, repeat=2):
                for seq in SEQS[:7]:
                    yield (a + "+" + b, seq)
        for kind in REPL_KINDS:
            yield (kind, "repl")

    def describe(self, spec):
        if spec[1] == "repl":
            return "prompt session: %s x n lines" % REPL_KINDS[spec[0]]
        return "kind=%s collections=%s" % (spec[0], "".join(spec[1]) or "-")

    def build(self, spec):
        kind, seq = spec
        if seq == "repl":
            return [{"repl": repl_lines(kind, n), "final_collect": True, "stats": True, "step_limit": 5000000} for n in REPL_NS], None
        ns = NS if True else NS
        cases = [{"src": prog(kind, n, seq), "final_collect": True, "stats": True, "step_limit": 5000000} for n in ns]
        # the same runs stopped without the final collection: the books must agree with the blocks at any point, not only right after a sweep
        cases += [{"src": prog(kind, n, seq), "final_collect": False, "stats": True, "step_limit": 5000000} for n in MID_NS]
        return cases, None

    def judge(self, spec, ctx, rs):
        if spec[1] == "repl":
            return self.judge_repl(spec, rs)
        released = 0
        base = None
        for n, r in zip(MID_NS, rs[len(NS):]):
            if r.get("class") != "ok" or not r.get("out", "").endswith("end 5\n"):
                v = Verdict(False, True, "driver-failed", "driver program did not run (no final collection): n=%d class=%s err=%r %s" % (n, r.get("class"), r.get("err", "")[-300:], r.get("panic") or ""))
                v.extra["machinery"] = True
                return v
            st = r["stats"]
            if r.get("mismatch", 0) or r.get("bad_free", 0) or st["unknown_blocks"] or st["size_diff_blocks"] or st["sum_reported"] != st["sum_actual"]:
                return Verdict(False, True, "size-mid", "n=%d, no final collection: blocks/sizes disagree with the allocator: unknown=%s size_diff=%s first=%s (sum reported %d, actual %d)" % (
                    n, st["unknown_blocks"], st["size_diff_blocks"], st["first_size_diff"], st["sum_reported"], st["sum_actual"]))
            if st["bytes_allocated"] != st["sum_actual"]:
                return Verdict(False, True, "bytes-mid", "n=%d, between collections: bytes_allocated=%d but the blocks owned sum to %d (the collection trigger compares bytes_allocated with next_gc)" % (
                    n, st["bytes_allocated"], st["sum_actual"]))
        rs = rs[:len(NS)]
        for n, r in zip(NS, rs):
            if r.get("class") != "ok" or not r.get("out", "").endswith("end 5\n"):
                v = Verdict(False, True, "driver-failed", "driver program did not run: n=%d class=%s err=%r %s" % (n, r.get("class"), r.get("err", "")[-300:], r.get("panic") or ""))
                v.extra["machinery"] = True
                return v
            st = r["stats"]
            released += r.get("releases", 0)
            if r.get("mismatch", 0) or r.get("bad_free", 0):
                return Verdict(False, True, "layout", "n=%d: %d release(s) with a size/alignment different from the acquisition (first: recorded size,align=%s passed=%s), %d bad frees" % (
                    n, r.get("mismatch"), r.get("first_mismatch", [])[:2], r.get("first_mismatch", [])[2:], r.get("bad_free", 0)))
            if st["unknown_blocks"]:
                return Verdict(False, True, "unknown-block", "n=%d: %d block(s) the runtime owns are not live blocks of the allocator" % (n, st["unknown_blocks"]))
            if st["size_diff_blocks"] or st["sum_reported"] != st["sum_actual"]:
                return Verdict(False, True, "size", "n=%d: per-block sizes disagree with the allocator: %s (sum reported %d, actual %d)" % (n, st["first_size_diff"], st["sum_reported"], st["sum_actual"]))
            if st["bytes_allocated"] != st["sum_actual"]:
                return Verdict(False, True, "bytes", "n=%d: bytes_allocated=%d but the blocks owned sum to %d" % (n, st["bytes_allocated"], st["sum_actual"]))
            if not st["intern_equals_strings"] or st["intern_keys_inside_block"] != st["intern"]:
                return Verdict(False, True, "intern", "n=%d: intern table (%d entries, %d keys inside their block) != live string blocks (%d)" % (n, st["intern"], st["intern_keys_inside_block"], st["strings"]))
            if st["next_gc"] != 2 * st["bytes_allocated"]:
                return Verdict(False, True, "next_gc", "n=%d: next_gc=%d is not twice the live size %d after a full collection" % (n, st["next_gc"], st["bytes_allocated"]))
            if st["nursery"] != 0:
                return Verdict(False, True, "nursery", "n=%d: %d objects left in the nursery after a full collection" % (n, st["nursery"]))
            if n >= 16:
                # capacities of the runtime's own vectors settle within the first iterations; the last iteration's
                # garbage may still be referenced from a dead stack slot, so byte totals may differ by the length of a few strings
                if base is None:
                    base = (n, st["blocks"], st["bytes_allocated"], st["kinds"])
                elif st["blocks"] != base[1] or abs(st["bytes_allocated"] - base[2]) > 64:
                    v = Verdict(False, True, "growth", "live heap after a full collection grows with the number of iterations although the live set is fixed: n=%d -> blocks=%d bytes=%d; n=%d -> blocks=%d bytes=%d (kinds [kind,count,bytes]: %s -> %s)" % (
                        base[0], base[1], base[2], n, st["blocks"], st["bytes_allocated"], base[3], st["kinds"]))
                    if spec[0] in ("channel", "channel_on_fiber"):
                        v.finding = "KF-C20-chanleak"
                    return v
        return Verdict(True, released > 0, "ok:%s" % spec[0])


def _judge_repl(self, spec, rs):
    base = None
    for n, r in zip(REPL_NS, rs):
        if r.get("class") != "ok" or "end 1\n" not in r.get("out", ""):
            v = Verdict(False, True, "driver-failed", "prompt session did not run: n=%d class=%s err=%r %s" % (n, r.get("class"), r.get("err", "")[-300:], r.get("panic") or ""))
            v.extra["machinery"] = True
            return v
        st = r["stats"]
        if r.get("mismatch", 0) or r.get("bad_free", 0) or st["unknown_blocks"] or st["size_diff_blocks"] or st["sum_reported"] != st["sum_actual"] or st["bytes_allocated"] != st["sum_actual"]:
            return Verdict(False, True, "books", "n=%d lines: the runtime's books disagree with the allocator after the final collection: bytes_allocated=%s sum_actual=%s unknown=%s size_diff=%s" % (
                n, st["bytes_allocated"], st["sum_actual"], st["unknown_blocks"], st["size_diff_blocks"]))
        if n >= 16:
            if base is None:
                base = (n, st["blocks"], st["bytes_allocated"], st.get("temp_roots"))
            elif st["blocks"] > base[1] + 2 or st["bytes_allocated"] > base[2] + 256 or st.get("temp_roots") != base[3]:
                return Verdict(False, True, "growth", "the heap of a prompt session grows with the number of lines although no line leaves anything behind: %d lines -> blocks=%d bytes=%d temporary roots=%s; %d lines -> blocks=%d bytes=%d temporary roots=%s" % (
                    base[0], base[1], base[2], base[3], n, st["blocks"], st["bytes_allocated"], st.get("temp_roots")))
    return Verdict(True, True, "ok:%s" % spec[0])


C20.judge_repl = _judge_repl


def main(tier):
    t0 = time.time()
    chk = C20()
    merged = explore(chk, tier, cap_s=600)
    return report.finish(chk, tier, merged, t0)
