"""C07 / C08 — channels deliver exactly once, in order, within capacity; fibers make
progress and deadlock is reported exactly when nothing can run.

All networks up to the size bound are enumerated; for each the model
(vlib/netmodel.py) is explored over all schedules (explicit-state), the generated
Laythe program is run on the real VM, and its printed completion lines are
replayed against the model (trace inclusion + terminal report).
C07 = every completed step is enabled in the model (nothing invented, duplicated,
dropped, reordered; capacity; sync hand-off; close semantics).
C08 = terminal report exact, no hang, no host panic.
"""
import time, itertools, hashlib
from vlib.engine import Check, Verdict, explore
from vlib import report, netmodel as N, runner as R


def structured(tier):
    S, R, C = "s", "r", "c"
    th = tier == "thorough"
    out = []
    # F1 pipeline + join: channel 0 = data, channel 1 = done
    for k0 in ("sync", "buf1", "buf2", "buf3"):
        for k1 in ("sync", "buf2"):
            for n in range(0, 5):
                for k in range(0, 5):
                    for close in (False, True):
                        prod = tuple([(S, 0)] * n + ([(C, 0)] if close else []) + [(S, 1)])
                        cons = tuple([(R, 0)] * k + [(S, 1)])
                        for joins in (1, 2):
                            main = tuple([(R, 1)] * joins)
                            out.append(((k0, k1), (main, prod, cons), None))
                            out.append(((k0, k1), (main, cons, prod), None))
                        # main is the consumer / the producer itself
                        out.append(((k0, k1), (tuple([(R, 0)] * k + [(R, 1)]), prod), None))
                        out.append(((k0, k1), (tuple([(S, 0)] * n + ([(C, 0)] if close else []) + [(R, 1)]), cons), None))
    # F2 fan-in / F3 fan-out over one data channel
    for k0 in ("sync", "buf1", "buf2"):
        for m in (2, 3):
            for per in (1, 2):
                for take in range(0, m * per + 2):
                    out.append(((k0,), (tuple([(R, 0)] * take),) + tuple(tuple([(S, 0)] * per) for _ in range(m)), None))
                    out.append(((k0,), (tuple([(S, 0)] * take),) + tuple(tuple([(R, 0)] * per) for _ in range(m)), None))
                    out.append(((k0, "buf3"), (tuple([(S, 0)] * take + [(R, 1)] * m),) + tuple(tuple([(R, 0)] * per + [(S, 1)]) for _ in range(m)), None))
    # F5 several producers and several consumers on one data channel, every fiber reports to main through the done channel
    for k0 in ("sync", "buf1", "buf2", "buf3"):
        for k1 in ("sync", "buf2"):
            for np_, nc in ((1, 2), (1, 3), (2, 1), (2, 2)):
                for n in (1, 2, 3):
                    for k in (1, 2):
                        prods = [tuple([(S, 0)] * n + [(S, 1)])] * np_
                        conss = [tuple([(R, 0)] * k + [(S, 1)])] * nc
                        for joins in (np_ + nc, np_ + nc - 1):
                            main = tuple([(R, 1)] * joins)
                            out.append(((k0, k1), (main,) + tuple(conss) + tuple(prods), None))
                            out.append(((k0, k1), (main,) + tuple(prods) + tuple(conss), None))
    # F6 request/reply servers: a server fiber answers on channel 1 what it receives on channel 0; it may launch a helper of its own first
    # (a child that finishes while the server is parked); requests come from main or from a separate sender, replies are collected by main
    L = "l"
    for k0 in ("sync", "buf1"):
        for k1 in ("sync", "buf1"):
            for rounds in (1, 2, 3):
                for warm in (None, (), ((S, 2),), ((R, 2),)):
                    serve = [(R, 0), (S, 1)] * rounds
                    kinds = (k0, k1) + (("buf1",) if warm else ())
                    # main sends the requests and collects the replies itself, in every order of its sends and receives
                    # (optionally after waiting for the helper's message, so that the server is parked when its child finishes)
                    fib = [tuple(([(L, 2)] if warm is not None else []) + serve)]
                    if warm is not None:
                        fib.append(tuple(warm))
                    for pos in itertools.combinations(range(2 * rounds), rounds):
                        arr = [(S, 0) if i in pos else (R, 1) for i in range(2 * rounds)]
                        prefixes = [[]] + ([[(R, 2)]] if warm == ((S, 2),) else []) + ([[(S, 2)]] if warm == ((R, 2),) else [])
                        for pre in prefixes:
                            out.append((kinds, (tuple(pre + arr),) + tuple(fib), None))
                    # a separate sender; main only collects
                    sender = tuple([(S, 0)] * rounds)
                    fib2 = [tuple(([(L, 3)] if warm is not None else []) + serve), sender]
                    if warm is not None:
                        fib2.append(tuple(warm))
                    out.append((kinds, (tuple([(R, 1)] * rounds),) + tuple(fib2), None))
                    out.append((kinds, (tuple([(R, 1)] * rounds),) + (fib2[1], fib2[0]) + tuple(fib2[2:]), None) if warm is None else (kinds, (tuple([(R, 1)] * rounds), tuple([(L, 3)] + serve), sender, tuple(warm)), None))
    # F7 main is the server; its children: an optional helper that finishes at once (launched first or last), a client (launched by main
    # or through a chain of 1-2 launching fibers) that sends the requests and, at some point between them, starts the collector of
    # the replies directly or through a chain of 1-2 launching fibers
    for k0 in ("sync", "buf1"):
        for k1 in ("sync", "buf1"):
            for rounds in (1, 2, 3):
                serve = tuple([(R, 0), (S, 1)] * rounds)
                coll = tuple([(R, 1)] * rounds)
                for warm in (None, "first", "last"):
                    for cdepth in (0, 1, 2):
                        for depth in (0, 1, 2, 3):
                            for at in range(rounds + 1):
                                if depth == 0 and at > 0:
                                    continue
                                fibs = []          # index i in fibs is fiber i + 1
                                if warm == "first":
                                    fibs.append(())
                                base = len(fibs) + 1
                                # starters: base .. base+cdepth-1, client = base+cdepth
                                client_id = base + cdepth
                                for c in range(cdepth):
                                    fibs.append(((L, base + c + 1),))
                                nchain = max(depth - 1, 0)
                                first_chain = client_id + 1
                                collector = first_chain + nchain
                                client = [(S, 0)] * rounds
                                if depth > 0:
                                    client.insert(at, (L, first_chain if nchain else collector))
                                fibs.append(tuple(client))
                                for c in range(nchain):
                                    fibs.append(((L, first_chain + c + 1),))
                                fibs.append(coll)
                                if warm == "last":
                                    fibs.append(())
                                out.append(((k0, k1), (serve,) + tuple(fibs), None))
    # F4 ping-pong over two channels
    for k0 in ("sync", "buf1"):
        for k1 in ("sync", "buf1"):
            for rounds in (1, 2, 3):
                out.append(((k0, k1), (tuple([(S, 0), (R, 1)] * rounds), tuple([(R, 0), (S, 1)] * rounds)), None))
                out.append(((k0, k1), (tuple([(R, 1), (S, 0)] * rounds), tuple([(S, 1), (R, 0)] * rounds)), None))
                out.append(((k0, k1), (tuple([(S, 0), (R, 1)] * rounds), tuple([(S, 1), (R, 0)] * rounds)), None))
    return out


def launch_trees(tier):
    """fibers launched by fibers: every network of the small bound with every placement of the launch of each non-main fiber
    (by main before its first operation, or at any position of any other fiber's script, acyclic)"""
    plan = [(1, 1, 4), (1, 2, 4), (1, 3, 3), (2, 2, 3)] if tier == "thorough" else [(1, 1, 3), (1, 2, 3), (1, 3, 3), (2, 2, 2)]
    for nch, nf, t in plan:
        for kinds, fibers in N.networks(nch, nf, t):
            n = len(fibers)
            # placement per fiber f>=1: None (main, up front) or (parent, position)
            options = []
            for f in range(1, n):
                opts = [None]
                for p in range(n):
                    if p != f:
                        opts += [(p, i) for i in range(len(fibers[p]) + 1)]
                options.append(opts)
            for choice in itertools.product(*options):
                if all(c is None for c in choice):
                    continue  # the plain network is in the main enumeration
                parent = {f + 1: c[0] for f, c in enumerate(choice) if c is not None}
                # acyclic: following parents must reach a fiber launched up front
                ok = True
                for f in parent:
                    seen, x = set(), f
                    while x in parent:
                        if x in seen:
                            ok = False
                            break
                        seen.add(x)
                        x = parent[x]
                    if not ok:
                        break
                if not ok:
                    continue
                scripts = [list(s) for s in fibers]
                # insert launches from the highest position down so that positions stay valid
                ins = sorted(((c[0], c[1], f + 1) for f, c in enumerate(choice) if c is not None), key=lambda x: (x[0], -x[1], -x[2]))
                for p, i, f in ins:
                    scripts[p].insert(i, ("l", f))
                yield (kinds, tuple(tuple(s) for s in scripts), None)


def nested_workers():
    """workers that launch a helper of their own and share a data channel, joined by main through go/done channels
    (channel 0 = data, 1 = go, 2 = done): a fiber parked on a channel can be resumed because its child finished"""
    S, R, C, L = "s", "r", "c", "l"
    out = []
    mains = [()]
    for n in (1, 2, 3):
        mains += list(itertools.product([(R, 1), (S, 0), (R, 2), (R, 0)], repeat=n))
    for k0 in ("sync", "buf1", "buf2"):
        for k1, k2 in (("buf1", "sync"), ("sync", "buf1")):
            for kid in (((S, 0),), ((R, 0),), ()):
                for w1kid in (None, 0, 1):
                    for w2 in (((R, 0), (S, 2)), ((S, 0), (S, 2)), ((R, 0),)):
                        w1 = [(R, 0), (S, 1)]
                        fibers_tail = [tuple(w2)]
                        if w1kid is not None:
                            w1.insert(w1kid, (L, 3))
                            fibers_tail.append(tuple(kid))
                        for main in mains:
                            out.append(((k0, k1, k2), (tuple(main), tuple(w1)) + tuple(fibers_tail), None))
    return out


def heap_family(tier):
    top = 10 if tier == "thorough" else 8
    for kind in ("buf2", "buf3"):
        for n in range(1, top + 1):
            for ops in itertools.product("sr", repeat=n):
                yield ((kind,), (tuple((o, 0) for o in ops),), "heap")
        for k in range(1, 7):
            for pre in range(0, 3):
                # main first sends `pre` values itself, then consumes everything while a producer sends k more
                main = tuple(("s", 0) for _ in range(pre)) + tuple(("r", 0) for _ in range(pre + k))
                yield ((kind,), (main, tuple(("s", 0) for _ in range(k))), "heap")
    for k in range(1, 5):
        yield (("sync",), (tuple(("r", 0) for _ in range(k)), tuple(("s", 0) for _ in range(k))), "heap")


class Net(Check):
    level = "model_checking"
    assumptions = ["fibers switch only inside channel operations, so a line printed right after an operation is atomic with its completion and stdout is the VM's linearisation",
                   "close while a synchronous sender is parked with an untaken value is unspecified by the property; states reachable from it are compared for crash-freedom only",
                   "size bound: <= 2 channels (3 in the nested-workers family) of kinds {sync, buffered 1, buffered 2, buffered 3}, main + <= 4 launched fibers, straight-line scripts"]

    def __init__(self, pid):
        self.id = pid
        self.rule = ("all networks (channels, launched fibers, total operations): quick (1,1-4,<=5) (2,1-3,<=4); thorough (1,1-3,<=7) (1,4,<=5) (2,1,<=6) (2,2,<=5) (2,3,<=4) ("
                     "symmetric fibers merged); structured families beyond that bound (producer/consumer pipelines with 0-4 sends / 0-4 receives joined through a done channel over capacities 0-3, fan-in, fan-out, ping-pong, 1-2 producers x 1-3 consumers all joined by main, request/reply servers with 1-3 rounds (as a fiber that may launch a helper first, with main's sends and receives in every order; as main itself with the collector started directly or through a chain of launching fibers); up to 14 operations); plus the nested family (one operation inside a native iterator callback) "
                     "for T<=3; plus fibers launched by fibers: every placement of every launch for (1,1-3,<=3) (2,2,<=2) (thorough <=4/3) and the nested-workers family (workers that launch a helper and share a data channel, joined through go/done channels, 3 channels, 3-4 fibers, up to 9 operations); per network: model explored over all schedules, VM trace replayed against it. non-trivial = network whose "
                     "model has >= 2 fibers interacting on a channel (some receive or blocked send); heap-payload family (C07): buffered channels of capacity 2/3 driven around their ring - every send/receive "
                     "sequence of main alone up to 8 (10 thorough) operations, a producer with main as consumer, a synchronous pair - with fresh lists as values and a forced full collection after every operation under the poisoning allocator")

    def gen(self, tier):
        if tier == "thorough":
            plan = [(1, 1, 7), (1, 2, 7), (1, 3, 7), (1, 4, 5), (2, 1, 6), (2, 2, 5), (2, 3, 4)]
        else:
            plan = [(1, 1, 5), (1, 2, 5), (1, 3, 5), (1, 4, 5), (2, 1, 4), (2, 2, 4), (2, 3, 4)]
        for nch, nf, t in plan:
            for kinds, fibers in N.networks(nch, nf, t):
                yield (kinds, fibers, None)
        # structured families beyond the operation bound: producer/consumer pipelines joined through a `done` channel, fan-in, fan-out, ping-pong
        for spec in structured(tier):
            yield spec
        # fibers launched by fibers (the launch is an operation of the parent's script)
        for spec in launch_trees(tier):
            yield spec
        for spec in nested_workers():
            yield spec
        # what is delivered must not depend on the collector: buffered channels driven around their ring (every send/receive sequence of main
        # alone up to 8 (10 thorough) operations, and a producer fiber with main as consumer), heap payloads, a full collection after every operation
        for spec in heap_family(tier):
            yield spec
        # an operation executed inside a callback run by a native (nested interpreter loop shares the scheduler)
        for nch, nf in ((1, 1), (1, 2), (2, 1)):
            for kinds, fibers in N.networks(nch, nf, 3):
                for f, s in enumerate(fibers):
                    for i in range(len(s)):
                        yield (kinds, fibers, (f, i))

    def describe(self, spec):
        kinds, fibers, wrap = spec
        return "channels=%s fibers=%s nested=%s" % (list(kinds), [" ".join("%s%d" % (o, c) for o, c in s) for s in fibers], wrap)

    def build(self, spec):
        kinds, fibers, wrap = spec
        OP = {"s": 0, "r": 1, "c": 2, "l": 3}
        case = {"cmd": "net", "kinds": [{"sync": 0, "buf1": 1, "buf2": 2, "buf3": 3}[k] for k in kinds],
                "fibers": [[[OP[o], c] for o, c in s] for s in fibers], "wrap": list(wrap) if (wrap and wrap != "heap") else None, "step_limit": 300000}
        if wrap == "heap":
            # fresh heap payloads only the channel refers to + a forced full collection after every operation, freed memory poisoned
            case["heap"] = True
            case["alloc"] = "poison"
        return [case], None

    def judge(self, spec, ctx, rs):
        kinds, fibers, wrap = spec
        r = rs[0]
        cls = r.get("class")
        interacting = any(op == 'r' for s in fibers for op, c in s) and len(fibers) > 1
        nm = r.get("net")
        if nm is None:
            # the runner died (signal) or was killed by its watchdog before it could answer: explore the model here
            ns, nt, unspec, dl = N.explore(kinds, fibers)
            nm = {"states": ns, "transitions": nt, "deadlocks": dl, "verdict": "crash", "detail": "%s %s" % (cls, r.get("signal") or "")}
        extra = {"states": nm["states"], "transitions": nm["transitions"], "traces": 1, "model_deadlock_states": nm["deadlocks"]}
        # every K-th network is re-checked with the Python reference model (cross-check of the Rust port)
        if int(hashlib.sha1(repr((kinds, fibers)).encode()).hexdigest()[:8], 16) % 97 == 0 and cls in ("ok", "deadlock", "runtime_error"):
            ns, nt, unspec, dl = N.explore(kinds, fibers)
            lines = [l for l in r.get("out", "").split("\n") if l]
            pv, pd = N.check_trace(kinds, fibers, cls, lines)
            if (ns, nt, dl) != (nm["states"], nm["transitions"], nm["deadlocks"]) or (pv or "") != nm["verdict"]:
                v = Verdict(False, True, "model-port-mismatch", "Rust and Python models disagree: rust=%s python=%s" % (nm, (ns, nt, dl, pv, pd)))
                v.extra["machinery"] = True
                return v
            extra["cross_checked_with_reference_model"] = 1
        verdict, detail = nm["verdict"], nm["detail"]
        if not verdict:
            return Verdict(True, interacting, "ok:%s" % cls, extra=extra)
        # (in the heap-payload family a crash is the delivered value being read after it was freed: C07's business, not a scheduling matter)
        is_c07 = verdict == "safety" or (wrap == "heap" and verdict == "crash")
        if (self.id == "C07") != is_c07:
            return Verdict(True, interacting, "other:%s" % verdict, extra=extra)
        lines = [l for l in r.get("out", "").split("\n") if l]
        v = Verdict(False, True, verdict, "%s: %s | VM class=%s lines=%s err=%r %s" % (verdict, detail, cls, lines, r.get("err", "")[-120:], r.get("panic") or ""), extra=extra)
        if verdict == "spurious-deadlock":
            if detail == "released":
                v.finding = "KF-C08-lost-sync-wakeup"
            elif detail == "closed":
                v.finding = "KF-C08-close-no-wake"
            elif detail in ("bufrecv", "bufsend"):
                v.finding = "KF-C08-buffered-no-wake"
            elif detail in ("syncrecv", "mixed"):
                v.finding = "KF-C08-parked-not-resumed"
        if verdict == "safety" and detail.startswith("completed step not enabled in the model"):
            # known finding: a synchronous sender is resumed although its value has not been taken yet (it is taken later in the same run)
            import re as _re
            m = _re.search(r'"(\d+) (\d+) s"', detail)
            if m:
                f, i = int(m.group(1)), int(m.group(2))
                op, c = fibers[f][i] if f < len(fibers) and i < len(fibers[f]) else (None, None)
                taken_later = any(l.endswith(" r v%d_%d" % (f, i)) for l in lines[lines.index("%d %d s" % (f, i)) + 1:]) if ("%d %d s" % (f, i)) in lines else False
                if op == "s" and kinds[c] == "sync" and taken_later and cls == "ok":
                    v.finding = "KF-C07-sync-sender-resumed-early"
        if verdict == "crash" and wrap is not None and wrap != "heap" and cls == "panic" and "Internal Error" in (r.get("panic") or ""):
            v.finding = "KF-C08-nested-block"
        return v


def main(tier, pid="C07"):
    t0 = time.time()
    chk = Net(pid)
    merged = explore(chk, tier, cap_s=(1700 if tier == "thorough" else 240))
    ex = merged["extra"]
    cov = {"states": int(ex.get("states", 0)), "transitions": int(ex.get("transitions", 0)),
           "traces_validated_against_impl": int(ex.get("traces", 0)), "model_deadlock_states": int(ex.get("model_deadlock_states", 0))}
    return report.finish(chk, tier, merged, t0, coverage_extra=cov)
