"""C08 — see checks/c07.py (one engine, two verdicts)."""
from checks import c07


def main(tier):
    return c07.main(tier, "C08")
