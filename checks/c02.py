"""C02 — lexical scoping: closures share captured variables by reference.

Scenario families (every combination of the listed factors is generated):
 (cell)  a variable of kind {parameter, local, module-level, catch variable, loop-body
         local, for-item, field via self} declared at nesting level 0 of a chain of
         D in {1,2,3} nested functions (fn / lambda / method mixes); a reader closure
         and a writer closure created at the innermost level; every sequence of <= 3
         events from {direct read, direct write, closure read, closure write} before
         the declaring call returns and every sequence of <= 2 closure events after it
         returned; a second call of the maker must yield an independent variable;
 (loop)  closures created in loop bodies (for / while) over the item variable and a
         body local, read (and written) after the loop, with 0-2 extra captured vars;
 (shadow) shadowing through nested blocks, parameters and inner functions;
 (subset) 3 variables, every subset captured by an inner function (boxed / unboxed);
 (mixed) a function with 1-3 captures from an enclosing function and 1-3 own boxed locals:
         every ordered pair (X, Y) as adjacent statements `X = v; let seen = Y;`.
Oracle: reference evaluator (cells shared by reference, fresh per declaration execution).
"""
import itertools, time
from vlib.engine import Check, Verdict, explore
from vlib import report, layref as L

def N(x): return ["num", x]
def S(x): return ["str", x]
def V(x): return ["var", x]
def call(f, *a): return ["call", V(f) if isinstance(f, str) else f, list(a)]
def inv(o, m, *a): return ["invoke", o, m, list(a)]
def lam(params, body, expr=False): return ["lambda", params, body, expr]

KINDS = ["param", "local", "module", "catch", "bodylocal", "field"]
EV_BEFORE = ["Rd", "Wd", "Ra", "Wb"]
EV_AFTER = ["Ra", "Wb"]
CHAINS = {1: [("fn",)], 2: [("fn", "fn"), ("fn", "lambda"), ("method", "lambda"), ("lambda", "fn")], 3: [("fn", "fn", "fn"), ("fn", "lambda", "lambda"), ("method", "fn", "lambda")]}


def wrap_levels(chain, inner_stmts, level=1):
    """build closures get/set at the innermost level of the chain; returns statements that define `pair` = [get, set] at level 0"""
    if level >= len(chain):
        return inner_stmts
    kind = chain[level]
    inner = wrap_levels(chain, inner_stmts, level + 1)
    name = "lv%d" % level
    if kind == "fn":
        return [["fn", name, [], inner + [["return", V("pair")]]], ["let", "pair", call(name)]] if True else None
    return [["let", name, lam([], inner + [["return", V("pair")]])], ["let", "pair", call(name)]]


def cell_scenario(kind, chain, before, after):
    rd = V("v") if kind != "field" else ["get", ["self"], "v"]
    if kind == "catch":
        rdval = ["tern", ["invoke", V("Error"), "str", []], rd, rd] if False else rd
    def wr(n):
        if kind == "field":
            return ["set", ["self"], "v", n]
        return ["assign", "v", n]
    def shown(e):
        # catch variables hold an error instance until overwritten: show() yields its message
        if kind == "catch":
            return call("show", e)
        return e
    closures = [["let", "get", lam([], [["return", shown(rd)]])], ["let", "set", lam(["n"], [["expr", wr(V("n"))], ["return", V("n")]])], ["let", "pair", ["list", [V("get"), V("set")]]]]
    if any(e in ("Rt", "Wt") for e in tuple(before) + tuple(after)):
        # a reader and a writer that touch the variable first thing in a handler, right after an error came out of another closure's frame
        # (`boom` has two captured variables of its own): the variable must still be the closure's own
        closures = closures[:2] + [["let", "gett", lam([], [["try", [["expr", call("boom")]], "eb", None, [["return", shown(rd)]]], ["return", S("unreached")]])],
                                   ["let", "sett", lam(["n"], [["try", [["expr", call("boom")]], "eb", None, [["expr", wr(V("n"))]]], ["return", V("n")]])],
                                   ["let", "pair", ["list", [V("get"), V("set"), V("gett"), V("sett")]]]]
    inner = wrap_levels(chain, closures)
    evs = []
    k = 1
    for ev in before:
        k += 1
        if ev == "Rd":
            evs.append(["print", [S("Rd"), shown(rd)]])
        elif ev == "Wd":
            evs.append(["expr", wr(N(k))])
        elif ev == "Ra":
            evs.append(["print", [S("Ra"), call(["index", V("pair"), N(0)])]])
        elif ev == "Rt":
            evs.append(["print", [S("Rt"), call(["index", V("pair"), N(2)])]])
        elif ev == "Wt":
            evs.append(["print", [S("Wt"), call(["index", V("pair"), N(3)], N(k))]])
        else:
            evs.append(["print", [S("Wb"), call(["index", V("pair"), N(1)], N(k))]])
    core = inner + evs + [["return", V("pair")]]
    top = chain[0]
    pre = []
    if kind == "param":
        params, args, body = ["v"], [N(1)], core
    elif kind == "local":
        params, args, body = [], [], [["let", "v", N(1)]] + core
    elif kind == "module":
        pre = [["let", "v", N(1)]]
        params, args, body = [], [], core
    elif kind == "catch":
        params, args = [], []
        body = [["let", "res", ["nil"]], ["try", [["raise", call("Error", S("msg"))]], "v", None, [x if x[0] != "return" else ["expr", ["assign", "res", x[1]]] for x in core]], ["return", V("res")]]
    elif kind == "bodylocal":
        params, args = [], []
        body = [["let", "res", ["nil"]], ["for", "it", inv(N(1), "times"), [["let", "v", N(1)]] + [x if x[0] != "return" else ["expr", ["assign", "res", x[1]]] for x in core]], ["return", V("res")]]
    else:  # field
        params, args, body = [], [], core
    if kind == "field" or top == "method":
        init = [("method", "init", [], [["expr", ["set", ["self"], "v", N(1)]]])] if kind == "field" else []
        decl = [["class", "K", None, init + [("method", "make", params, body)]]]
        mk = lambda: inv(call("K"), "make", *args)
    elif top == "lambda":
        decl = [["let", "make", lam(params, body)]]
        mk = lambda: call("make", *args)
    else:
        decl = [["fn", "make", params, body]]
        mk = lambda: call("make", *args)
    if kind == "catch":
        pre = [["fn", "show", ["x"], [["try", [["return", ["get", V("x"), "message"]]], "e", None, [["return", V("x")]]]]]] + pre
    if any(e in ("Rt", "Wt") for e in tuple(before) + tuple(after)):
        pre = [["fn", "mkboom", [], [["let", "z1", S("z1")], ["let", "z2", S("z2")], ["return", lam([], [["expr", ["assign", "z1", V("z2")]], ["raise", call("Error", V("z1"))]])]]],
               ["let", "boom", call("mkboom")]] + pre
    prog = pre + decl + [["let", "p1", mk()]]
    for ev in after:
        k += 1
        if ev == "Ra":
            prog.append(["print", [S("aRa"), call(["index", V("p1"), N(0)])]])
        elif ev == "Rt":
            prog.append(["print", [S("aRt"), call(["index", V("p1"), N(2)])]])
        elif ev == "Wt":
            prog.append(["print", [S("aWt"), call(["index", V("p1"), N(3)], N(k))]])
        else:
            prog.append(["print", [S("aWb"), call(["index", V("p1"), N(1)], N(k))]])
    # a second execution of the declaration: fresh variable (module-level variables are shared by definition)
    prog += [["let", "p2", mk()], ["print", [S("p2"), call(["index", V("p2"), N(0)])]], ["print", [S("w2"), call(["index", V("p2"), N(1)], N(77))]],
             ["print", [S("p1"), call(["index", V("p1"), N(0)])]], ["print", [S("p2"), call(["index", V("p2"), N(0)])]]]
    if kind == "module":
        prog.append(["print", [S("mod"), V("v")]])
    return prog


def loop_scenarios():
    out = []
    for loop in ("for", "while"):
        for write in (False, True):
            for extra in (0, 1, 2):
                for use in ("item", "local", "both"):
                    body = []
                    caps = [V("x%d" % k) for k in range(extra)]
                    pre = [["let", "fs", ["list", []]]] + [["let", "x%d" % k, N(100 + k)] for k in range(extra)]
                    parts = ([V("i")] if use in ("item", "both") else []) + ([V("j")] if use in ("local", "both") else []) + caps
                    clos = lam([], [["return", ["list", parts]]])
                    body = [["let", "j", ["bin", "*", V("i"), N(10)]], ["expr", inv(V("fs"), "push", clos)]]
                    if write:
                        body.append(["expr", inv(V("fs"), "push", lam([], [["expr", ["assign", "j", ["bin", "+", V("j"), N(1)]]]] + ([["expr", ["assign", "x0", ["bin", "+", V("x0"), N(1)]]]] if extra else []) + [["return", V("j")]]))])
                    if loop == "for":
                        lp = [["for", "i", inv(N(3), "times"), body]]
                    else:
                        lp = [["let", "i", N(0)], ["while", ["bin", "<", V("i"), N(3)], body + [["expr", ["assign", "i", ["bin", "+", V("i"), N(1)]]]]]]
                    post = [["for", "f", V("fs"), [["print", [S("f"), call("f")]]]], ["for", "f", V("fs"), [["print", [S("g"), call("f")]]]]]
                    for wrapfn in (False, True):
                        prog = pre + lp + post
                        if wrapfn:
                            prog = [["fn", "run", [], prog + [["return", ["nil"]]]], ["expr", call("run")]]
                        out.append(("loop", loop, write, extra, use, wrapfn, prog))
    return out


def shadow_scenarios():
    out = []
    for inner_kind in ("block", "param", "fn", "lambda", "for", "catch"):
        for capture_outer in (False, True):
            for capture_inner in (False, True):
                fs = [["let", "fs", ["list", []]], ["let", "x", S("outer")]]
                if capture_outer:
                    fs.append(["expr", inv(V("fs"), "push", lam([], [["return", V("x")]]))])
                inner_body = [["print", [S("in"), V("x")]]]
                if capture_inner:
                    inner_body.append(["expr", inv(V("fs"), "push", lam([], [["expr", ["assign", "x", ["bin", "+", V("x"), S("!")]]], ["return", V("x")]]))])
                if inner_kind == "block":
                    fs.append(["if", ["bool", True], [["let", "x", S("inner")]] + inner_body, None])
                elif inner_kind == "param":
                    fs += [["fn", "g", ["x"], inner_body + [["return", ["nil"]]]], ["expr", call("g", S("inner"))]]
                elif inner_kind == "fn":
                    fs += [["fn", "g", [], [["let", "x", S("inner")]] + inner_body + [["return", ["nil"]]]], ["expr", call("g")]]
                elif inner_kind == "lambda":
                    fs += [["expr", call(lam([], [["let", "x", S("inner")]] + inner_body + [["return", ["nil"]]]))]]
                elif inner_kind == "for":
                    fs.append(["for", "x", ["list", [S("inner")]], inner_body])
                else:
                    fs.append(["try", [["raise", call("Error", S("inner"))]], "x", None, [["print", [S("in"), ["get", V("x"), "message"]]]] + ([["expr", inv(V("fs"), "push", lam([], [["return", ["get", V("x"), "message"]]]))]] if capture_inner else [])])
                fs += [["print", [S("out"), V("x")]], ["for", "f", V("fs"), [["print", [S("f"), call("f")]]]], ["print", [S("out2"), V("x")]]]
                for wrapfn in (False, True):
                    prog = fs if not wrapfn else [["fn", "run", [], fs + [["return", ["nil"]]]], ["expr", call("run")]]
                    out.append(("shadow", inner_kind, capture_outer, capture_inner, wrapfn, prog))
    return out


def subset_scenarios():
    out = []
    for mask in range(8):
        for wmask in range(8):
            if wmask & ~mask:
                continue
            for depth in (1, 2):
                reads = [V("v%d" % k) for k in range(3) if mask & (1 << k)]
                writes = [["expr", ["assign", "v%d" % k, ["bin", "+", V("v%d" % k), N(10)]]] for k in range(3) if wmask & (1 << k)]
                inner = lam([], writes + [["return", ["list", reads]]])
                if depth == 2:
                    inner = call(lam([], [["return", inner]]))
                body = [["let", "v1", N(1)], ["let", "v2", N(2)], ["let", "c", inner], ["print", [S("a"), V("v0"), V("v1"), V("v2")]], ["print", [S("c"), call("c")]],
                        ["expr", ["assign", "v1", ["bin", "+", V("v1"), N(100)]]], ["print", [S("b"), V("v0"), V("v1"), V("v2")]], ["print", [S("c"), call("c")]], ["return", V("c")]]
                prog = [["fn", "mk", ["v0"], body], ["let", "k1", call("mk", N(0))], ["let", "k2", call("mk", N(5))], ["print", [S("k1"), call("k1")]], ["print", [S("k2"), call("k2")]]]
                out.append(("subset", mask, wmask, depth, prog))
    return out


def mixed_scenarios():
    """a function with captures from an enclosing function AND own boxed locals (index spaces that can coincide numerically): for every ordered pair (X, Y)
    of its variables the statements `X = value; let seen = Y;` are adjacent"""
    out = []
    for nout in (1, 2, 3):
        for nloc in (1, 2, 3):
            for with_self in (False, True):
                outs = ["o%d" % k for k in range(nout)]
                locs = ["l%d" % k for k in range(nloc)]
                allv = outs + locs + (["p0"] if True else [])
                body = [["let", l, S("L" + l)] for l in locs]
                # own locals and the parameter are captured (boxed) by a nested lambda
                body.append(["let", "peek", lam([], [["return", ["list", [V(x) for x in locs + ["p0"]]]]])])
                k = 0
                for x in allv:
                    for y in allv:
                        if x == y:
                            continue
                        k += 1
                        body += [["expr", ["assign", x, S("w%d" % k)]], ["let", "seen%d" % k, V(y)], ["print", [S("%s>%s" % (x, y)), V("seen%d" % k), V(x)]]]
                body += [["print", [S("peek"), call("peek")]], ["return", ["list", [V(x) for x in allv]]]]
                if with_self:
                    inner = ["class", "K", None, [("method", "init", [], [["expr", ["set", ["self"], "tag", S("tag")]]]),
                                                  ("method", "run", ["p0"], [["let", "me", lam([], ["get", ["self"], "tag"], True)]] + body)]]
                    callinner = inv(call("K"), "run", S("P"))
                else:
                    inner = ["fn", "inner", ["p0"], body]
                    callinner = call("inner", S("P"))
                prog = [["fn", "outer", outs, [inner, ["let", "r", callinner], ["return", ["list", [V("r")] + [V(o) for o in outs]]]]],
                        ["print", [call("outer", *[S("O%d" % i) for i in range(nout)])]]]
                out.append(("mixed", nout, nloc, with_self, prog))
    return out


LEVEL_VARS = ["a0", "b0", "a1", "b1", "own"]
LEVEL_CHAINS = [("fn", "fn"), ("lambda", "lambda"), ("method", "lambda")]


def levels_scenario(chain, seq):
    """three nested functions (outer > mid > inner; mid and inner of the given kinds): inner mentions variables of outer (a0, b0: captures
    of captures), of mid (a1, b1: direct captures) and its own local in every order; seq = ((variable, 'r'|'w'|'i'), ...): read into the result
    list, overwrite with a constant, increment. Capture indices are handed out in order of first mention, so the order and the repeats matter."""
    stmts = [["let", "own", N(50)], ["let", "seen", ["list", []]]]
    for k, (v, act) in enumerate(seq):
        if act == "r":
            stmts.append(["expr", inv(V("seen"), "push", V(v))])
        elif act == "w":
            stmts.append(["expr", ["assign", v, N(900 + k)]])
        else:
            stmts.append(["expr", ["assign", v, ["bin", "+", V(v), N(1)]]])
    stmts.append(["return", ["list", [V("seen")] + [V(v) for v in LEVEL_VARS]]])
    mk, ik = chain
    if ik == "lambda":
        inner_decl = ["let", "inner", lam([], stmts)]
    else:
        inner_decl = ["fn", "inner", [], stmts]
    mid_body = [["let", "a1", N(30)], ["let", "b1", N(40)], inner_decl, ["print", [S("i1"), call("inner")]], ["print", [S("i2"), call("inner")]],
                ["print", [S("mid"), V("a1"), V("b1"), V("pm")]], ["return", V("inner")]]
    if mk == "lambda":
        mid_decl, mid_call = ["let", "mid", lam(["pm"], mid_body)], call("mid", N(7))
    elif mk == "method":
        mid_decl, mid_call = ["class", "M", None, [("method", "run", ["pm"], mid_body)]], inv(call("M"), "run", N(7))
    else:
        mid_decl, mid_call = ["fn", "mid", ["pm"], mid_body], call("mid", N(7))
    outer = ["fn", "outer", ["po"], [["let", "a0", N(10)], ["let", "b0", N(20)], mid_decl, ["let", "k", mid_call], ["print", [S("outer"), V("a0"), V("b0"), V("po")]],
                                    ["print", [S("i3"), call("k")]], ["print", [S("outer2"), V("a0"), V("b0")]], ["return", V("k")]]]
    return [outer, ["let", "k1", call("outer", N(1))], ["let", "k2", call("outer", N(2))], ["print", [S("k1"), call("k1")]], ["print", [S("k2"), call("k2")]]]


class C02(Check):
    id = "C02"
    level = "exploration"
    rule = ""
    assumptions = ["reference evaluator vlib/layref.py: environments are chains of frames of shared mutable cells, a cell is created by every execution of a declaration, the for-item variable is one cell per loop"]

    def gen(self, tier):
        th = tier == "thorough"
        maxb = 3
        for kind in KINDS:
            for d in (1, 2, 3):
                for chain in CHAINS[d]:
                    if kind == "field" and chain[0] != "method":
                        continue
                    if kind != "field" and chain[0] == "method" and kind in ("module",):
                        pass
                    for nb in range(0, maxb + 1):
                        for before in itertools.product(EV_BEFORE, repeat=nb):
                            if nb == 3 and not th and d == 3:
                                continue
                            for na in range(0, 3):
                                for after in itertools.product(EV_AFTER, repeat=na):
                                    if not th and nb == 3 and na == 2:
                                        continue
                                    yield ("cell", kind, chain, before, after)
        # the same family with the two handler events; only sequences that contain one of them (the others are above)
        evb, eva = EV_BEFORE + ["Rt", "Wt"], EV_AFTER + ["Rt", "Wt"]
        for kind in KINDS:
            for d in (1, 2, 3):
                for chain in CHAINS[d]:
                    if kind == "field" and chain[0] != "method":
                        continue
                    for nb in range(0, (3 if th else 2) + 1):
                        for before in itertools.product(evb, repeat=nb):
                            for na in range(0, (2 if th else 1) + 1):
                                for after in itertools.product(eva, repeat=na):
                                    if any(e in ("Rt", "Wt") for e in before + after):
                                        yield ("cell", kind, chain, before, after)
        for s in loop_scenarios():
            yield s
        for s in shadow_scenarios():
            yield s
        for s in subset_scenarios():
            yield s
        for s in mixed_scenarios():
            yield s
        syms = [(v, a) for v in LEVEL_VARS for a in ("r", "w", "i")]
        for chain in LEVEL_CHAINS:
            for n in range(1, (4 if th else 3) + 1):
                for seq in itertools.product(syms, repeat=n):
                    if n == 4 and len({v for v, _ in seq}) > 3:
                        continue
                    yield ("levels", chain, seq)

    def ast(self, spec):
        if spec[0] == "cell":
            return cell_scenario(spec[1], spec[2], spec[3], spec[4])
        if spec[0] == "levels":
            return levels_scenario(spec[1], spec[2])
        return spec[-1]

    def describe(self, spec):
        return "%s | %s" % (spec[:-1] if spec[0] not in ("cell", "levels") else spec, L.render(self.ast(spec))[0].replace("\n", " ")[:400])

    def build(self, spec):
        stmts = self.ast(spec)
        try:
            exp = L.Interp().run(stmts)[:3]
        except L.Unsupported as u:
            exp = ("unsupported", str(u), None)
        # the same AST printed plainly and with (run-time erased) type annotations, generic parameters and member declarations
        return [{"src": L.render(stmts, lay)[0], "step_limit": 300000} for lay in ("min", "typed")], exp

    def judge(self, spec, exp, rs):
        last = None
        for k, r in enumerate(rs):
            last = self.judge1(spec, exp, [r])
            if not last.ok:
                if k == 1:
                    last.reason = "[typed layout] " + last.reason
                return last
        return last

    def judge1(self, spec, exp, rs):
        r = rs[0]
        cls, out, ecls = exp
        if cls != "ok":
            v = Verdict(False, False, "reference", "reference did not evaluate its own scenario to completion: %s %s %s" % (cls, out[-200:], ecls))
            v.extra["machinery"] = True
            return v
        if r.get("class") != "ok" or r.get("out") != out:
            return Verdict(False, True, "mismatch", "expected out=%r; got class=%s out=%r err=%r %s" % (out, r.get("class"), r.get("out"), r.get("err", "")[-200:], r.get("panic") or ""))
        nontriv = True
        if spec[0] == "cell":
            nontriv = ("Wb" in spec[3] + spec[4] and ("Rd" in spec[3] or "Ra" in spec[3] + spec[4])) or ("Wd" in spec[3] and "Ra" in spec[3] + spec[4])
        return Verdict(True, nontriv, spec[0])


def main(tier):
    t0 = time.time()
    chk = C02()
    chk.rule = ("families cell/loop/shadow/subset of checks/c02.py: (cell) 6 variable kinds x 8 function chains (depth 1-3) x all event sequences (<= 3 before, <= 2 after the "
                "declaring call returned); (loop) 72 loop/closure programs; (shadow) 48; (subset) all read/write capture subsets of 3 variables x 2 depths. "
                "non-trivial (cell) = a write through one party is followed by a read through another")
    merged = explore(chk, tier, cap_s=(1500 if tier == "thorough" else 200))
    return report.finish(chk, tier, merged, t0)
