"""C16 — no accepted program can crash the runtime.

Bounded-exhaustive families (DESIGN.md C16):
 (nat)  every built-in (discovered from the std-lib sources of the tree under
        test) x every argument tuple over a fixed alphabet of value kinds,
        arities 0..2 (0..3 thorough), on receivers of the right kind;
 (sub)  every inherited native invoked on an instance of a user subclass of each
        built-in class;
 (call) every value kind called as a function with 0..2 arguments;
 (op)   every unary/binary operator on every pair of value kinds;
 (idx)  index get/set on every receiver kind x every index kind;
 (rec)  recursion through closures/methods/initialisers/native callbacks, caught
        and uncaught;
 (prot) protocol abuse (iter/next/current/str/init returning wrong kinds);
 (err)  errors raised while another error is being handled.
Oracle: the run ends as ok / exit / deadlock / language level error with a
traceback. A host panic, a signal, a hang or an allocator-check failure is a
violation.
"""
import glob, itertools, os, re, time
from vlib.engine import Check, Verdict, explore
from vlib import report

LIB = "/repo/laythe_lib/src"

RECV = {
    "bool.rs": ["true"], "channel.rs": ["chan(1)", "chan()"], "class.rs": ["Object", "Error"],
    "closure.rs": ["(|| { let q = 1; || q })()"], "error.rs": [], "fun.rs": ["fnx"],
    "iter.rs": ["[1,2].iter()", "'ab'.iter()", "3.times()", "({1:2}).iter()"], "list.rs": ["[1,2,3]", "[]"],
    "map.rs": ["({1: 2})"], "method.rs": ["[1].push", "Object().str", "A0().m"], "native.rs": ["print"],
    "nil.rs": ["nil"], "number.rs": ["5", "1.5"], "object.rs": ["Object()", "A0()"],
    "string.rs": ["'abc'", "''", "'héllo'", "'é'", "'日本'"], "tuple.rs": ["(1,2)", "()"],
    "stdout.rs": ["stdout"], "stderr.rs": ["stderr"], "stdin.rs": ["stdin"],
}
ARGS = ["nil", "true", "0", "-1", "-2", "1.5", "(0/0)", "1e300", "''", "'a'", "'é'", "[]", "[1]", "()", "({})", "(|| 1)",
        "(|a| a)", "(|a, b| a)", "Object", "Object()", "chan(1)", "[1].iter()", "print", "[1].push", "Error('e')", "math"]
PRE = ("import std.math; import std.regexp; import std.env; import std.io.stdio:{stdout, stderr, stdin}; import std.io.fs; "
       "fn fnx() { 1 } class A0 { m() { 1 } }\n")
BUILTIN_CLASSES = ["List", "Map", "Tuple", "String", "Number", "Bool", "Nil", "Iter", "Channel", "Fun", "Closure", "Method",
                   "Native", "Class", "Object", "Error", "Module", "regexp.RegExp"]


def discover():
    """(callee expression, max arity) for every built-in declared in the std-lib sources"""
    out = []
    pat = re.compile(r'NativeMetaBuilder::(method|fun)\(\s*("[^"]*"|INDEX_GET|INDEX_SET)\s*,\s*Arity::(\w+)\(([^)]*)\)')
    for f in sorted(glob.glob(LIB + "/**/*.rs", recursive=True)):
        if "/support/" in f:
            continue
        b = os.path.basename(f)
        src = open(f).read()
        for m in pat.finditer(src):
            kind, name, ar, arv = m.group(1), m.group(2).strip('"'), m.group(3), m.group(4)
            nums = [int(x) for x in re.findall(r"\d+", arv)] or [0]
            hi = max(nums)
            if name in ("", "test", "INDEX_GET", "INDEX_SET", "init"):
                continue
            if kind == "method":
                for r in RECV.get(b, []):
                    out.append(("%s.%s" % (r, name), hi))
            else:
                mod = {"utils.rs": None}.get(b)
                if "/math/" in f:
                    out.append(("math." + name, hi))
                elif "/env/" in f:
                    out.append(("env." + name, hi))
                elif "/io/fs/" in f:
                    out.append(("fs." + name, hi))
                elif b == "list.rs":
                    out.append(("List." + name, hi))
                elif b == "tuple.rs":
                    out.append(("Tuple." + name, hi))
                elif b == "number.rs":
                    out.append(("Number." + name, hi))
                elif name != "exit":
                    out.append((name, hi))
    out += [("Error", 2), ("regexp.RegExp", 2), ("regexp.RegExp('a+').test", 1), ("regexp.RegExp('a+').match", 1),
            ("regexp.RegExp('(a)(b)?').captures", 1), ("regexp.RegExp('a').matchAll", 1), ("exit", 1),
            ("ValueError", 2), ("List", 1), ("Map", 1), ("Object", 1), ("String", 1), ("Number", 1), ("Iter", 1), ("Tuple", 1), ("Class", 1)]
    seen, res = set(), []
    for c in out:
        if c[0] not in seen:
            seen.add(c[0])
            res.append(c)
    return res


def inherited_methods():
    """method names declared per primitive file, for the subclass family"""
    pat = re.compile(r'NativeMetaBuilder::method\(\s*"([^"]+)"')
    names = set()
    for f in sorted(glob.glob(LIB + "/global/primitives/*.rs")):
        names |= set(pat.findall(open(f).read()))
    return sorted(names)


REC = [
    ("closure", "fn f(n) { return f(n + 1) + 1; } %s"),
    ("closure_nonTail", "fn f(n) { let a = [n]; return f(n + 1) + a[0]; } %s"),
    ("method", "class R { m(n) { return self.m(n + 1) + 1; } } fn f(n) { return R().m(n); } %s"),
    ("init", "class R { init(n) { self.x = R(n + 1); } } fn f(n) { return R(n); } %s"),
    ("each", "fn f(n) { [1].iter().each(|x| f(n + 1)); return 1; } %s"),
    ("map", "fn f(n) { return [1].iter().map(|x| f(n + 1)).list(); } %s"),
    ("reduce", "fn f(n) { return [1].iter().reduce(0, |a, x| f(n + 1)); } %s"),
    ("sort", "fn f(n) { return [2, 1].sort(|a, b| f(n + 1)); } %s"),
    ("filter_first", "fn f(n) { return [1].iter().filter(|x| f(n + 1)).first(); } %s"),
    ("all", "fn f(n) { return [1].iter().all(|x| f(n + 1)); } %s"),
    ("str_user", "class S { str() { return '${self}'; } } fn f(n) { return S().str(); } %s"),
    ("str_user_print", "class S { str() { print(self); return 'x'; } } fn f(n) { return S().str(); } %s"),
    ("call_native", "fn f(n) { return f.call(n + 1); } %s"),
    ("interp", "class S { str() { return 'a${S()}'; } } fn f(n) { return '${S()}'; } %s"),
    ("iter_proto", "class I { iter() { return self; } next() { for x in I() {} return false; } current() { nil } } fn f(n) { for x in I() {} return 1; } %s"),
    ("launch", "fn f(n) { launch f(n + 1); return 1; } %s"),
    ("mutual", "fn g(n) { return f(n + 1); } fn f(n) { return g(n + 1); } %s"),
    ("try_rec", "fn f(n) { try { return f(n + 1); } catch e { raise e; } } %s"),
    # the function itself is the callback: closure and native frames alternate, the closure calls only ever see every second depth
    ("each_direct", "fn g(x) { [1].iter().each(g); } fn f(n) { return g(1); } %s"),
    ("map_direct", "fn g(x) { return [1].iter().map(g).list(); } fn f(n) { return g(1); } %s"),
    ("filter_direct", "fn g(x) { return [1].iter().filter(g).list(); } fn f(n) { return g(1); } %s"),
    ("sort_direct", "fn g(a, b) { return [3, 1, 2].sort(g).len(); } fn f(n) { return g(1, 2); } %s"),
    ("reduce_direct", "fn g(a, x) { return [1].iter().reduce(0, g); } fn f(n) { return g(0, 1); } %s"),
    ("call_direct", "fn g(x) { return g.call(x); } fn f(n) { return g(1); } %s"),
    ("each_direct_odd", "fn g(x) { [1].iter().each(g); } fn h(n) { return g(1); } fn f(n) { return h(n); } %s"),
    ("method_direct", "class R { m(x) { [1].iter().each(self.m); } } fn f(n) { return R().m(1); } %s"),
]
REC_USE = [
    ("uncaught", "print('M'); f(0); print('done');"),
    ("caught", "print('M'); try { f(0); } catch e { print('caught', e.cls().name()); } print('done'); print([1, 2].len());"),
    ("caught_twice", "print('M'); try { f(0); } catch e { print('c1'); } try { f(0); } catch e { print('c2'); } print('done');"),
    ("caught_in_callback", "print('M'); [1, 2].iter().each(|i| { try { f(0); } catch e { print('c', i); } }); print('done');"),
]
SELF_CONTAIN = [
    "let a = []; a.push(a); print(a);", "let a = []; a.push(a); let s = a.str();", "let a = []; a.push(a); print('${a}');",
    "let m = {}; m[1] = m; print(m);", "let a = []; let t = (a, 1); a.push(t); print(t);",
    "let a = []; let m = {1: a}; a.push(m); print(m);", "let a = []; a.push(a); print(a == a, a.has(a), a.index(a));",
    "class P { init() { self.me = self; } } print(P().me.me != nil);", "let a = []; a.push(a); assertEq(a, 1);",
    "let a = []; a.push(a); a.iter().each(|x| print(x.len()));",
]
PROT_RET = ["nil", "1", "'s'", "[]", "true", "Object()", "(|| 1)", "self"]
PROT = []
for rv in PROT_RET:
    PROT += [
        ("iter", "class I { iter() { return %s; } } for x in I() { print(x); }" % rv),
        ("next", "class I { iter() { return self; } next() { return %s; } current() { return 1; } } let n = 0; for x in I() { n += 1; if n > 3 { break; } }" % rv),
        ("current", "class I { init() { self.n = 0; } iter() { return self; } next() { self.n += 1; return self.n < 3; } current() { return %s; } } for x in I() { print(x == nil); }" % rv),
        ("str", "class S { str() { return %s; } } print(S());" % rv),
        ("str_interp", "class S { str() { return %s; } } let s = 'a${S()}b';" % rv),
        ("str_in_list", "class S { str() { return %s; } } print([S()]);" % rv),
        ("str_in_map", "class S { str() { return %s; } } print({1: S()});" % rv),
        ("str_in_tuple", "class S { str() { return %s; } } print((S(), 1));" % rv),
        ("init_ret", "class S { init() { return %s; } } print(S() != nil);" % rv) if rv in ("nil",) else ("init_field", "class S { init() { self.a = %s; } } print(S().a == nil);" % rv),
        ("err_init", "class E : Error { init() { self.message = %s; } } try { raise E(); } catch e { print('c'); }" % rv),
        ("err_init_uncaught", "class E : Error { init() { self.message = %s; } } raise E();" % rv),
        ("assert_str", "class S { str() { return %s; } } try { assertEq(S(), 1); } catch e { print('c'); }" % rv),
        ("iter_native_on_user", "class I { iter() { return %s; } } try { print([1].iter().zip(I()).list()); } catch e { print('c'); }" % rv),
        ("cmp", "let l = [3, 1, 2]; try { print(l.sort(|a, b| %s)); } catch e { print('c'); }" % rv.replace("self", "l")),
        ("callback_ret", "print([1, 2].iter().filter(|x| %s).len());" % rv.replace("self", "x")),
        ("reduce_ret", "print([1, 2].iter().reduce(%s, |a, x| a));" % rv.replace("self", "nil")),
    ]
PROT += [
    ("err_noinit", "class E : Error { init() {} } raise E();"),
    ("err_noinit_caught", "class E : Error { init() {} } try { raise E(); } catch e { print(e.message); print(e.backTrace); }"),
    ("err_noinit_sub", "class E : Error { init() {} } class F : E {} try { raise F(); } catch e: E { print('c'); }"),
    ("err_super_late", "class E : Error { init() { self.x = 1; super.init('m'); } } try { raise E(); } catch e { print(e.message, e.x); }"),
    ("raise_class", "raise Error;"), ("raise_nil", "raise nil;"), ("raise_str", "raise 'x';"), ("raise_inst", "class A {} raise A();"),
    ("raise_twice", "let e = Error('x'); try { raise e; } catch a { try { raise e; } catch b { print(a == b); } }"),
    ("catch_non_class", "let C = 1; try { raise Error('x'); } catch e: C { print('c'); }"),
    ("catch_nil_class", "let C = nil; try { raise Error('x'); } catch e: C { print('c'); }"),
    ("catch_instance", "let C = Error('y'); try { raise Error('x'); } catch e: C { print('c'); }"),
    ("catch_undefined", "try { raise Error('x'); } catch e: Nope { print('c'); }"),
    ("inherit_nonclass", "let X = 1; class A : X {}"), ("inherit_nil", "let X = nil; class A : X {}"), ("inherit_inst", "let X = Object(); class A : X {}"),
    ("inherit_self", "class A : A {}"), ("super_missing", "class A { m() { return super.nope(); } } A().m();"),
    ("super_field", "class A { init() { self.f = 1; } } class B : A { m() { return super.f; } } print(B().m());"),
    ("undefined_var", "fn f() { print(x); } f(); let x = 1;"), ("undefined_call", "fn f() { g(); } f(); fn g() {}"),
    ("use_before_init", "print(x); let x = 1;"), ("assign_undefined", "fn f() { x = 2; } f(); let x = 1; print(x);"),
    ("launch_native", "launch print(1); print(2);"), ("launch_class", "class A {} launch A(); print(2);"),
    ("launch_bound", "launch [1].push(2); print(2);"), ("launch_nonfn", "let x = 1; launch x();"),
    ("launch_loop", "let i = 0; while i < 3000 { launch clock(); i += 1; } print('done');"),
    ("launch_many", "fn f() {} let i = 0; while i < 3000 { launch f(); i += 1; } print('done');"),
    ("launch_arity", "fn f(a) {} launch f(); print(1);"), ("launch_arity2", "fn f() {} launch f(1, 2); print(1);"),
    ("chan_neg", "let c = chan(-1);"), ("chan_frac", "let c = chan(1.5);"), ("chan_str", "let c = chan('a');"), ("chan_big", "let c = chan(1e18);"),
    ("chan_nan", "let c = chan(0/0);"), ("chan_inf", "let c = chan(1/0);"), ("chan_zero", "let c = chan(0); print(c.capacity());"),
    ("send_nonchan", "1 <- 2;"), ("recv_nonchan", "print(<- 1);"), ("send_nil", "nil <- 2;"), ("recv_nil", "print(<- nil);"),
    ("send_closed", "let c = chan(1); c.close(); c <- 1;"), ("close_twice", "let c = chan(1); c.close(); c.close();"),
    ("recv_self_deadlock", "let c = chan(); print(<- c);"), ("send_self_deadlock", "let c = chan(); c <- 1;"),
    ("deep_list", "let a = []; let i = 0; let b = a; while i < 2000 { let n = []; b.push(n); b = n; i += 1; } print(a.len());"),
    ("deep_list_str", "let a = []; let i = 0; let b = a; while i < 200 { let n = []; b.push(n); b = n; i += 1; } print(a);"),
    ("big_times", "let n = 0; for i in 100000.times() { n += 1; } print(n);"),
    ("big_list", "let l = []; for i in 70000.times() { l.push(i); } print(l.len());"),
    ("big_str", "let s = 'a'; for i in 18.times() { s = s + s; } print(s.len());"),
    ("big_map", "let m = {}; for i in 20000.times() { m[i] = i; } print(m.len());"),
    ("many_args_call", "fn f(a, b, c, d, e, f, g, h) { return h; } print(f(1, 2, 3, 4, 5, 6, 7, 8));"),
    ("exit_neg", "exit(-1);"), ("exit_frac", "exit(1.5);"), ("exit_big", "exit(65536);"), ("exit_nan", "exit(0/0);"), ("exit_inf", "exit(1/0);"),
    ("exit_in_callback", "[1].iter().each(|x| exit(3));"), ("exit_in_try", "try { exit(2); } catch e { print('c'); }"),
    ("exit_in_fiber", "fn f() { exit(5); } let c = chan(); launch f(); <- c;"),
    ("method_on_nil_loop", "let i = 0; while i < 3 { try { nil.nope(); } catch e { i += 1; } } print(i);"),
    ("field_on_class", "class A {} A.x = 1;"), ("field_on_num", "let n = 1; n.x = 2;"), ("get_on_nil", "print(nil.x);"),
    ("static_missing", "class A {} A.nope();"), ("str_mul", "print('a' * 3);"), ("neg_str", "print(-'a');"),
    ("index_deep", "let l = [[1]]; print(l[0][0][0]);"),
]
ERR = [
    "try { raise Error('a'); } catch e { raise Error('b'); }",
    "try { try { raise Error('a'); } catch e { raise Error('b'); } } catch f { print(f.message); }",
    "try { try { raise Error('a'); } catch e { raise Error('b', e); } } catch f { print(f.inner.message); }",
    "try { raise Error('a'); } catch e: Nope { print(1); }",
    "try { try { raise Error('a'); } catch e: Nope { print(1); } } catch f { print(f.cls().name()); }",
    "fn c() { raise Error('cls'); } try { raise Error('a'); } catch e: c() { print(1); }",
    "try { [1, 2].iter().each(|x| { raise Error('cb'); }); } catch e { try { nil.x; } catch f { print('f'); } }",
    "try { [1, 2].iter().each(|x| { try { raise Error('cb'); } catch e { raise Error('cb2'); } }); } catch e { print(e.message); }",
    "fn f() { try { raise Error('a'); } catch e { return f2(); } } fn f2() { raise Error('b'); } try { f(); } catch e { print(e.message); }",
    "class S { str() { raise Error('s'); } } try { print(S()); } catch e { print('c', e.message); }",
    "class S { str() { raise Error('s'); } } try { raise Error('${S()}'); } catch e { print('c', e.message); }",
    "class E : Error { init() { raise Error('in init'); } } try { raise E(); } catch e { print(e.message); }",
    "class E : Error { init() { super.init('x'); nil.boom(); } } try { raise E(); } catch e { print(e.cls().name()); }",
    "fn f(n) { if n == 0 { raise Error('deep'); } try { f(n - 1); } catch e { raise Error('w' + n.str(), e); } } try { f(50); } catch e { print(e.message); }",
    "let c = chan(1); fn f(c) { try { raise Error('in fiber'); } catch e { c <- e.message; } } launch f(c); print(<- c);",
    "let c = chan(); fn f(c) { raise Error('fiber dies'); } launch f(c); <- c;",
    "fn f() { raise Error('x'); } let i = 0; while i < 300 { try { f(); } catch e { i += 1; } } print(i);",
    "fn f() { raise Error('x'); } let i = 0; while i < 300 { try { [1].iter().each(|x| f()); } catch e { i += 1; } } print(i);",
    "fn f() { try { try { return 1; } catch e {} } catch e {} return 0; } fn g() { f(); raise Error('x'); } try { g(); } catch e { print('ok'); }",
    "fn f() { let i = 0; while i < 2 { try { try { i += 1; continue; } catch e {} } catch e {} } } fn g() { f(); raise Error('x'); } try { g(); } catch e { print('ok'); }",
    "fn f() { while true { try { try { break; } catch e {} } catch e {} } } fn g() { f(); raise Error('x'); } try { g(); } catch e { print('ok'); }",
    "try { raise Error('a'); } catch e { print(e.backTrace.len() > 0); e.backTrace.push(1); print(e.backTrace.len()); }",
    "let e = Error('x'); e.message = 5; try { raise e; } catch f { print(f.message); }",
    "let e = Error('x'); e.message = 5; raise e;",
    "let e = Error('x'); e.backTrace = nil; raise e;",
    "let e = Error('x'); e.inner = 5; raise e;",
    "let e = Error('x', Error('y', Error('z'))); raise e;",
]


# callbacks that fail under every native that runs callbacks (with a frame of its own: each/reduce/all/any/sort; without:
# list/first/last/len/next/into/for-loops driving lazy map/filter/zip/skip/take iterators), the error raised at every element
# position and by every kind of raise site, the catching try placed in the frame that called the native, one frame further
# out, at script level, or nowhere; afterwards unrelated calls and 30 repetitions. Oracle: no crash, and the three placements
# of the try print exactly the same thing (the error either is or is not catchable, wherever the try sits).
CB_DRIVERS = [
    ("each", "L.iter().each(cb);"),
    ("each_lambda", "L.iter().each(|x| { print(cb(x)); });"),
    ("map_list", "print(L.iter().map(cb).list());"),
    ("map_first", "print(L.iter().map(cb).first());"),
    ("map_last", "print(L.iter().map(cb).last());"),
    ("map_len", "print(L.iter().map(cb).len());"),
    ("map_next", "let it = L.iter().map(cb); print(it.next()); print(it.current()); print(it.next()); print(it.current()); print(it.next());"),
    ("map_str", "print(L.iter().map(cb).str().len() > 0);"),
    ("map_into", "print(L.iter().map(cb).into(List.collect));"),
    ("map_map_list", "print(L.iter().map(cb).map(|y| y + 1).list());"),
    ("map_skip_list", "print(L.iter().map(cb).skip(1).list());"),
    ("map_take_list", "print(L.iter().map(cb).take(2).list());"),
    ("map_zip_list", "print(L.iter().zip(L.iter().map(cb)).list());"),
    ("map_chain_list", "print(L.iter().chain(L.iter().map(cb)).list());"),
    ("filter_list", "print(L.iter().filter(|x| cb(x) > 2).list());"),
    ("filter_first", "print(L.iter().filter(|x| cb(x) > 2).first());"),
    ("for_map", "for v in L.iter().map(cb) { print(v); }"),
    ("for_filter", "for v in L.iter().filter(|x| cb(x) > 2) { print(v); }"),
    ("for_map_nested", "for v in L.iter().map(cb) { for w in [v].iter().map(|y| y + 1) { print(w); } }"),
    ("reduce", "print(L.iter().reduce(0, |a, x| a + cb(x)));"),
    ("all", "print(L.iter().all(|x| cb(x) > 0));"),
    ("any", "print(L.iter().any(|x| cb(x) > 100));"),
    ("sort", "print(L.sort(|a, b| cb(a) - cb(b)));"),
    ("each_in_each", "L.iter().each(|x| { print([x].iter().map(cb).list()); });"),
    ("map_in_for", "for x in L { print([x].iter().map(cb).first()); }"),
    ("list_slice_map", "print(L.slice(0).iter().map(cb).list());"),
]
CB_SITES = [("raise", "raise Error('boom');"), ("vm", "let z = x + nil;"), ("native", "let z = Number.parse('zz');"),
            ("nested", "boom();"), ("inner_caught", "try { raise Error('in'); } catch e2 { print('in', x); }")]
CB_AT = [1, 2, 3, 0]
CB_PLACE = ["same", "wrapper", "script", "none"]


# the class named by a catch clause: every kind of binding for that name (error classes, other classes, non-classes, names
# defined only later, locals, captures) x where the try sits x what is raised x with/without a second clause and an outer try.
# All programs are loop free: a crash, a hang (step limit) or an exit without a traceback is a violation.
CC_KINDS = [("Error", "", ""), ("sub", "class K : Error {}", ""), ("noterr", "class K {}", ""), ("num", "let K = 5;", ""), ("nilv", "let K = nil;", ""),
            ("fnv", "fn K() {}", ""), ("strv", "let K = 'Error';", ""), ("inst", "let K = Error('k');", ""), ("alias", "let K = Error;", ""),
            ("later_class", "", "class K : Error {}"), ("later_let", "", "let K = Error;"), ("later_fn", "", "fn K() {}")]
CC_LOC = ["module", "fn", "lambda", "callback", "method", "fn_local", "fn_captured"]
CC_RAISE = [("err", "raise Error('a');"), ("vm", "nil.nope();"), ("deep", "thrower();"), ("sub", "raise Sub2('s');")]
CC_SHAPE = ["single", "then_blank", "outer", "nested_same_frame"]


def catchcls_source(kind, loc, rz, shape):
    name, pre, post = next((k, a, b) for k, a, b in CC_KINDS if k == kind)
    cls = "Error" if kind == "Error" else "K"
    body = dict(CC_RAISE)[rz]
    t = "try { %s } catch e: %s { print('caught', e.cls().name()); }" % (body, cls)
    if shape == "then_blank":
        t = "try { %s } catch e: %s { print('caught', e.cls().name()); } catch e2 { print('second', e2.cls().name()); }" % (body, cls)
    elif shape == "nested_same_frame":
        t = "try { %s } catch o { print('outer same frame', o.cls().name()); }" % t
    head = "class Sub2 : Error {} fn thrower() { raise Error('deep'); } "
    if loc in ("fn_local", "fn_captured"):
        if kind.startswith("later") or not pre.startswith("let"):
            return None
        inner = t if loc == "fn_local" else "let run = || { %s }; run();" % t
        prog = head + "fn site() { %s %s print('after'); } " % (pre, inner)
        call = "site();"
    else:
        wrap = {"module": "%s", "fn": "fn site() { %s print('after'); } ", "lambda": "let site = || { %s print('after'); }; ",
                "callback": "fn site() { [1, 2].iter().each(|x| { %s }); print('after'); } ", "method": "class Site { m() { %s print('after'); } } fn site() { Site().m(); } "}[loc]
        if loc == "module":
            prog = head + pre + " "
            call = t
        else:
            prog = head + pre + " " + wrap % t
            call = "site();"
    if shape == "outer":
        call = "try { %s } catch o { print('outer', o.cls().name()); }" % call
    return prog + call + " print('end'); " + post


# a collection that is mutated while it is being iterated (by a for loop, by every callback-running native, by a hand-driven iterator):
# shrinking, growing, clearing, at the first / a middle / the last element. What the iteration then yields is not specified; it must not crash.
MI_DRIVERS = [("for", "for x in C { seen.push(x); if n == K { MUT } n += 1; }"), ("each", "C.iter().each(|x| { seen.push(x); if n == K { MUT } n += 1; });"),
              ("map_list", "seen = C.iter().map(|x| { if n == K { MUT } n += 1; return x; }).list();"), ("filter_list", "seen = C.iter().filter(|x| { if n == K { MUT } n += 1; return true; }).list();"),
              ("reduce", "C.iter().reduce(0, |a, x| { if n == K { MUT } n += 1; return a; });"), ("all", "C.iter().all(|x| { if n == K { MUT } n += 1; return true; });"),
              ("any", "C.iter().any(|x| { if n == K { MUT } n += 1; return false; });"), ("manual", "let it = C.iter(); while it.next() { seen.push(it.current()); if n == K { MUT } n += 1; } print(it.current());"),
              ("len_after", "let it = C.iter().map(|x| x); MUT print(it.len(), it.list());"), ("zip", "seen = C.iter().zip(C.iter()).map(|p| { if n == K { MUT } n += 1; return p; }).list();"),
              ("into", "seen = C.iter().map(|x| { if n == K { MUT } n += 1; return x; }).into(List.collect);"), ("skip_take", "seen = C.iter().skip(1).take(5).map(|x| { if n == K { MUT } n += 1; return x; }).list();"),
              ("rev_slice", "for x in C.slice(0) { if n == K { MUT } n += 1; } for x in C { seen.push(x); if n == K + 1 { MUT } n += 1; }")]
MI_LIST_MUTS = ["C.pop();", "C.remove(0);", "C.clear();", "C.push(9);", "C.insert(0, 9);", "C.pop(); C.pop(); C.pop();", "for i in 40.times() { C.push(i); }", "C.clear(); C.push(7);"]
MI_MAP_MUTS = ["C.remove('a');", "C.remove('d');", "C['z'] = 1;", "for i in 40.times() { C[i] = i; }", "for k in ['a', 'b', 'c', 'd'] { if C.has(k) { C.remove(k); } }"]


def mutiter_source(coll, di, mi, k):
    dname, drv = MI_DRIVERS[di]
    mut = (MI_LIST_MUTS if coll == "list" else MI_MAP_MUTS)[mi]
    init = "[1, 2, 3, 4]" if coll == "list" else "{'a': 1, 'b': 2, 'c': 3, 'd': 4}"
    body = drv.replace("MUT", mut).replace("K", str(k))
    return ("fn run() { let C = %s; let seen = []; let n = 0; try { %s } catch e { print('caught', e.cls().name()); } print(seen.len() >= 0, C.len() >= 0); } run(); run(); print('done');"
            % (init, body))


# comparators are user code: constant, alternating, cyclic, data dependent but not an order, failing at the n-th call, mutating the
# list that is being sorted. The result need not be sorted then, but the runtime must survive and return a permutation of the input.
SC_SIZES = [0, 1, 2, 5, 21, 33, 100, 300]
SC_CMPS = [("minus", "return a - b;"), ("reverse", "return b - a;"), ("always_1", "return 1;"), ("always_m1", "return -1;"), ("always_0", "return 0;"),
           ("alternate", "return k - (k / 2).floor() * 2 == 0 ? 1 : -1;"), ("cycle3", "return k - (k / 3).floor() * 3 - 1;"),
           ("mixed", "let v = a * 7 + b * 3; return v - (v / 5).floor() * 5 - 2;"), ("nan_at_10", "if k == 10 { return 0 / 0; } return a - b;"),
           ("string_at_7", "if k == 7 { return 'x'; } return a - b;"), ("raise_at_5", "if k == 5 { raise Error('cmp'); } return a - b;"),
           ("pop_original", "if k == 3 { l.pop(); } return a - b;"), ("clear_original", "if k == 3 { l.clear(); } return a - b;"), ("grow_original", "if k == 3 { for i in 50.times() { l.push(i); } } return a - b;"),
           ("sort_inside", "if k == 2 { l.sort(|x, y| y - x); } return a - b;"), ("inf", "return a > b ? 1 / 0 : -1 / 0;")]


def sortcmp_source(n, ci):
    return ("fn run() { let l = %d.times().map(|i| i * 37 - (i * 37 / 11).floor() * 11).list(); let total = l.iter().reduce(0, |a, x| a + x); let n = l.len(); let k = 0; "
            "try { let s = l.sort(|a, b| { k += 1; %s }); print('perm', s.len() == n, s.iter().reduce(0, |a, x| a + x) == total); } catch e { print('caught', e.cls().name()); } } run(); run(); print('done');"
            % (n, SC_CMPS[ci][1]))


# launch of every kind of callable; methods use their receiver
LAUNCH_PRE = ("let d = chan(4); class H { init(v) { self.v = v; } send(d) { d <- [self.v, @v]; } static st(d) { d <- 'static'; } both(d, x) { d <- [self.v, x]; } } "
              "class Sub : H { send(d) { launch super.send(d); } } class I { init(d) { self.d = d; d <- 'init'; } } fn plain(d) { d <- 'plain'; } let h = H(5); ")
LAUNCH_FORMS = ["launch plain(d);", "launch (|q| { q <- 'lambda'; })(d);", "launch h.send(d);", "launch H(6).send(d);", "let m = h.send; launch m(d);", "launch H.st(d);", "launch I(d);",
                "Sub(7).send(d);", "launch h.both(d, 'arg');", "launch d.close(); d = chan(4); d <- 'reopened';", "launch print('native');  d <- 'x';", "let l = [3, 1]; launch l.push(2); d <- l;",
                "launch (|| { launch h.send(d); })();", "fn mk() { let cap = 'cap'; return |q| { q <- cap; }; } launch mk()(d);"]


# a callback run by a native makes the fiber's stack grow (deep recursion with many locals) and a collection follows: a native that still holds
# a view of the old stack (its remaining arguments, the elements it iterates) reads freed memory. Every callback-running native, the growth
# happening at the first / a later callback; oracle: no crash and the same output as the run in which the callback does not recurse
CG_PRE = ("fn deep(n) { " + " ".join("let a%d = n + %d;" % (i, i) for i in range(40)) + " if n == 0 { print('@@gc full'); let junk = [[1], 'j' + n.str(), (2, 3)]; return junk.len(); } return deep(n - 1) + a39 - a39; }\n"
          "let calls = 0;\nfn grow() { calls += 1; if calls == AT { GROW } return calls; }\n"
          "class G { init(t) { self.t = t; } str() { grow(); return 'G' + self.t; } }\n")
CG_DRIVERS = [("print", "print(G('1'), 'second', ['third'], G('4'), ('fifth', 5));"), ("interp", "print('${G('1')}|${'b' + 'c'}|${[G('3')]}|${G('4')}');"),
              ("list_str", "print([G('1'), 'x', [G('3')], {'k': G('4')}].str());"), ("map_str", "print({'a': G('1'), 'b': [2]}.str().len() > 0, (G('1'), 'y', G('3')).str());"),
              ("each", "[['a'], ['b'], ['c']].iter().each(|x| { grow(); print(x); });"), ("map_list", "print([['a'], ['b'], ['c']].iter().map(|x| { grow(); return [x, 'm']; }).list());"),
              ("filter_list", "print([['a'], ['b'], ['c']].iter().filter(|x| { grow(); return true; }).list());"), ("reduce", "print([['a'], ['b'], ['c']].iter().reduce([], |acc, x| { grow(); acc.push(x); return acc; }));"),
              ("all_any", "print([['a'], ['b']].iter().all(|x| { grow(); return x.len() == 1; }), [['a'], ['b']].iter().any(|x| { grow(); return x.len() == 2; }));"),
              ("sort", "print([[3], [1], [2], [5], [4]].sort(|a, b| { grow(); return a[0] - b[0]; }));"), ("into", "print([['a'], ['b']].iter().map(|x| { grow(); return x; }).into(List.collect), [['a'], ['b']].iter().map(|x| { grow(); return x; }).into(Tuple.collect));"),
              ("zip_chain", "print([['a'], ['b']].iter().zip([['c'], ['d']].iter().map(|x| { grow(); return x; })).chain([(['e'], ['f'])].iter()).list());"),
              ("for_lazy", "for v in [['a'], ['b'], ['c']].iter().map(|x| { grow(); return [x]; }) { print(v); }"), ("first_last_len", "let it = [['a'], ['b']].iter().map(|x| { grow(); return x; }); print(it.first(), [['a'], ['b']].iter().map(|x| { grow(); return x; }).last());"),
              ("str_join_eq", "print([G('1'), G('2')] == [G('1'), G('2')], [G('1'), 'k'].has('k'), (G('1'), 's').index('s'));"), ("call_args", "fn five(a, b, c, d, e) { return [a, b, c, d, e]; } print(five(['a'], grow(), ['c'], grow(), ['e']));"),
              ("init_args", "class P { init(a, b, c) { self.a = a; self.b = b; self.c = c; grow(); } } let p = P(['a'], grow(), ['c']); print(p.a, p.b, p.c);"),
              ("method_in_callback", "class M { init() { self.v = ['mv']; } run(xs) { return xs.iter().map(|x| { grow(); return [x, self.v]; }).list(); } } print(M().run([['a'], ['b']]));"),
              ("launch_args", "let d = chan(2); fn w(d, a, b) { grow(); d <- [a, b]; } launch w(d, ['a'], ['b']); print(<- d);"), ("error_in_grown", "try { [['a'], ['b']].iter().each(|x| { grow(); raise Error('after ' + x[0]); }); } catch e { print(e.message, e.backTrace.len() > 0); }")]


def cbgrow_source(di, at, grows):
    pre = CG_PRE.replace("AT", str(at)).replace("GROW", "deep(60);" if grows else "")
    return pre + "fn run() { %s }\nrun();\nprint('calls', calls > 0);\nprint('done');\n" % CG_DRIVERS[di][1]


# instances of std-lib classes keep their state in ordinary fields: every value kind assigned to every such field, then every method
FS_TARGETS = [("regexp.RegExp('a+')", ["pattern", "flags"], ["test('aa')", "match('aa')", "captures('aa')", "matchAll('aa').list()", "str()"]),
              ("Error('m', Error('in'))", ["message", "inner", "backTrace"], ["str()", "message.str()", "cls().name()"])]


def fieldset_source(ti, field, arg, mi):
    ctor, fields, methods = FS_TARGETS[ti]
    return "let o = %s; print('M2'); o.%s = %s; try { print(o.%s); } catch e { print('caught', e.cls().name()); } print('done');" % (ctor, field, arg, methods[mi])


def cberr_source(driver, site, at, place):
    d = dict(CB_DRIVERS)[driver]
    st = dict(CB_SITES)[site]
    head = ("fn boom() { raise Error('deep'); } fn k() { return 7; } fn h() { let a = 1; let b = k(); return a + b; } "
            "fn cb(x) { if x == %d { %s } return x * 2; } " % (at, st))
    handler = "print('caught', e.cls().name());"
    if place == "same":
        body = head + "fn run(L) { let pad = 5; try { %s } catch e { %s } return pad; } " % (d, handler)
    elif place == "wrapper":
        body = head + "fn drive(L) { let q = 1; %s return q; } fn run(L) { let pad = 5; try { drive(L); } catch e { %s } return pad; } " % (d, handler)
    elif place == "none":
        body = head + "fn run(L) { let pad = 5; %s return pad; } " % d
    else:
        return head + ("let L = [1, 2, 3]; let pad = 5; try { %s } catch e { %s } print(pad); print(h()); "
                       "let i = 0; while i < 30 { try { %s } catch e { %s } i += 1; } print(h()); print('done');" % (d, handler, d, handler))
    return body + "print(run([1, 2, 3])); print(h()); let i = 0; while i < 30 { run([1, 2, 3]); i += 1; } print(h()); print('done');"


class C16(Check):
    id = "C16"
    level = "exploration"
    horizon_ms = 5000  # a watchdog kill is retried alone with a 20 s horizon (vlib/engine.py)
    rule = ("families nat/sub/call/op/idx/rec/prot/err as listed in checks/c16.py; (nat) = every built-in found in the std-lib "
            "sources x every argument tuple of length 0..2 (0..3 thorough for arity>=3 natives) over a 25-kind value alphabet; "
            "one call per program; non-trivial = the call/construct was reached (marker printed) and ended in a language level "
            "outcome other than an arity error, or crashed")
    assumptions = ["natives that touch the host (fs, env, stdin, clock, rand) run against the harness mocks",
                   "checked build = opt-level 2 with debug assertions and overflow checks; thorough also runs the plain (user) build",
                   "recursion families use the real 8 MiB stack on the VM thread"]

    def __init__(self, build_kind="checked"):
        self.build_kind = build_kind

    def gen(self, tier):
        th = tier == "thorough"
        nat = discover()
        for callee, hi in nat:
            top = min(hi + 1, 3 if th else 2)
            top = max(top, 1 if hi == 0 else 2)
            for n in range(0, top + 1):
                if n == 3 and not th:
                    continue
                alpha = ARGS if n < 3 else ARGS[:13] + ARGS[15:17]
                for tup in itertools.product(alpha, repeat=n):
                    yield ("nat", callee, tup)
        meths = inherited_methods()
        for cls in BUILTIN_CLASSES:
            for ctor_args in ("", "1", "'a'", "[1]"):
                yield ("sub", cls, ctor_args, None, ())
            for m in meths:
                for tup in ((), ("1",), ("nil",), ("(|a| a)",), ("[1]",)):
                    yield ("sub", cls, "", m, tup)
        for v in ARGS:
            for n in (0, 1, 2):
                yield ("call", v, n)
        for a in ARGS:
            for op in ("-", "!"):
                yield ("op1", op, a)
            for b in ARGS:
                for op in ("+", "-", "*", "/", "<", "<=", ">", ">=", "==", "!=", "&&", "||"):
                    yield ("op2", op, a, b)
        for r in ["[1,2,3]", "(1,2)", "'abc'", "({1: 2})", "nil", "5", "Object()", "Object", "print", "chan(1)", "[1].iter()"]:
            for a in ARGS:
                yield ("idxget", r, a)
                for b in ARGS[:13]:
                    yield ("idxset", r, a, b)
                yield ("prop", r, a)
        for name, body in REC:
            for uname, use in REC_USE:
                yield ("rec", name + "/" + uname, body % use)
        for i, s in enumerate(SELF_CONTAIN):
            yield ("selfc", i, s)
        for name, s in PROT:
            yield ("prot", name, s)
        for i, s in enumerate(ERR):
            yield ("err", i, s)
        for dn, _ in CB_DRIVERS:
            for sn, _ in CB_SITES:
                for at in CB_AT:
                    yield ("cberr", dn, sn, at)
        for coll, muts in (("list", MI_LIST_MUTS), ("map", MI_MAP_MUTS)):
            for di in range(len(MI_DRIVERS)):
                for mi in range(len(muts)):
                    for k in (0, 1, 3):
                        yield ("mutiter", coll, di, mi, k)
        for ti, (ctor, fields, methods) in enumerate(FS_TARGETS):
            for f in fields:
                for a in ARGS:
                    for mi in range(len(methods)):
                        yield ("fieldset", ti, f, a, mi)
        for di in range(len(CG_DRIVERS)):
            for at in (1, 2, 3):
                yield ("cbgrow", di, at)
        for i in range(len(LAUNCH_FORMS)):
            for j in range(len(LAUNCH_FORMS)):
                yield ("launchkinds", i, j)
        for n in SC_SIZES:
            for ci in range(len(SC_CMPS)):
                yield ("sortcmp", n, ci)
        for kn, _, _ in CC_KINDS:
            for loc in CC_LOC:
                for rn, _ in CC_RAISE:
                    for sh in CC_SHAPE:
                        if catchcls_source(kn, loc, rn, sh) is not None:
                            yield ("catchcls", kn, loc, rn, sh)
        # boundary-count programs (nesting depth, 254..300 locals/fields/methods/arguments/captures, wide constants): accepted ones must run without a crash
        from checks import c15
        for name, src in c15.boundary_family(th):
            if len(src) < 600000:
                yield ("bound", name, src)
        for n in (255, 256, 257):
            yield ("bound", "inherited_fields%d" % n, "class A { init() { " + " ".join("self.a%d = 1;" % i for i in range(200)) + " } } class B : A { init() { super.init(); " + " ".join("self.b%d = 2;" % i for i in range(n - 200)) + " } } print(B().a0);")

    def source(self, spec):
        k = spec[0]
        if k == "nat":
            return PRE + "print('M'); let r = %s(%s); print('done');" % (spec[1], ", ".join(spec[2]))
        if k == "sub":
            _, cls, ctor, m, tup = spec
            s = PRE + "class U : %s {} print('M'); let u = U(%s); " % (cls, ctor)
            if m:
                s += "let r = u.%s(%s); " % (m, ", ".join(tup))
            else:
                s += "print(u); print(u == u, [u].has(u)); "
            return s + "print('done');"
        if k == "call":
            return PRE + "print('M'); let v = %s; let r = v(%s); print('done');" % (spec[1], ", ".join(["1"] * spec[2]))
        if k == "op1":
            return PRE + "print('M'); let r = %s%s; print('done');" % (spec[1], spec[2])
        if k == "op2":
            return PRE + "print('M'); let r = %s %s %s; print('done');" % (spec[2], spec[1], spec[3])
        if k == "idxget":
            return PRE + "print('M'); let v = %s; let r = v[%s]; print('done');" % (spec[1], spec[2])
        if k == "idxset":
            return PRE + "print('M'); let v = %s; v[%s] = %s; print('done');" % (spec[1], spec[2], spec[3])
        if k == "prop":
            return PRE + "print('M'); let v = %s; let k = %s; v.len = k; print('done');" % (spec[1], spec[2])
        if k == "cberr":
            return PRE + "print('M'); " + cberr_source(spec[1], spec[2], spec[3], "same")
        if k == "catchcls":
            return PRE + "print('M'); " + catchcls_source(*spec[1:])
        if k == "fieldset":
            return PRE + "print('M'); " + fieldset_source(*spec[1:])
        if k == "cbgrow":
            return PRE + "print('M'); " + cbgrow_source(spec[1], spec[2], True)
        if k == "launchkinds":
            return PRE + "print('M'); " + LAUNCH_PRE + LAUNCH_FORMS[spec[1]] + " print(<- d); " + (LAUNCH_FORMS[spec[2]] + " print(<- d); " if spec[2] != spec[1] else "") + "print('done');"
        if k == "sortcmp":
            return PRE + "print('M'); " + sortcmp_source(spec[1], spec[2])
        if k == "mutiter":
            return PRE + "print('M'); " + mutiter_source(*spec[1:])
        if k == "bound":
            return PRE + "print('M'); " + spec[2]
        if k in ("rec", "selfc", "prot", "err"):
            return PRE + "print('M'); " + spec[2]
        raise ValueError(k)

    def describe(self, spec):
        return "%s | %s" % (spec[0], self.source(spec).split("\n", 1)[1][:400])

    def build(self, spec):
        if spec[0] == "cbgrow":
            return [{"src": PRE + "print('M'); " + cbgrow_source(spec[1], spec[2], True), "step_limit": 5000000, "alloc": "poison"},
                    {"src": PRE + "print('M'); " + cbgrow_source(spec[1], spec[2], False), "step_limit": 5000000}], None
        if spec[0] == "cberr":
            return [{"src": PRE + "print('M'); " + cberr_source(spec[1], spec[2], spec[3], pl), "step_limit": 5000000} for pl in CB_PLACE], None
        case = {"src": self.source(spec)}
        if spec[0] in ("rec", "selfc", "bound"):
            case["step_limit"] = 30000000
        else:
            case["step_limit"] = 5000000
        return [case], None

    def judge(self, spec, ctx, rs):
        if spec[0] == "cberr":
            return self.judge_cberr(spec, rs)
        if spec[0] == "cbgrow":
            for r in rs:
                v = self.judge_one(spec, r)
                if not v.ok:
                    return v
            if (rs[0].get("class"), rs[0].get("out")) != (rs[1].get("class"), rs[1].get("out")):
                return Verdict(False, True, "cbgrow:differs", "the output changes when a callback makes the stack grow: grown %r / plain %r (stderr %r)" % (
                    (rs[0].get("class"), rs[0].get("out", "")[-200:]), (rs[1].get("class"), rs[1].get("out", "")[-200:]), rs[0].get("err", "")[-200:]))
            return Verdict(True, True, "cbgrow:ok")
        return self.judge_one(spec, rs[0])

    def judge_cberr(self, spec, rs):
        for pl, r in zip(CB_PLACE, rs):
            v = self.judge_one(spec, r)
            if not v.ok:
                v.reason = "[try placed: %s] %s" % (pl, v.reason)
                return v
        same, wrap, script, none = rs
        obs = lambda r: (r.get("class"), r.get("code"), r.get("out"))
        if obs(same) != obs(wrap) or obs(same) != obs(script):
            return Verdict(False, True, "cberr:placement", "the same failing callback behaves differently depending on which frame holds the try: same-frame %r / wrapper %r / script %r (stderr %r)" % (
                obs(same), obs(wrap), obs(script), (same.get("err", "") + wrap.get("err", "") + script.get("err", ""))[-300:]))
        propagates = "caught" in same.get("out", "")
        if propagates != (none.get("class") == "runtime_error"):
            return Verdict(False, True, "cberr:uncaught", "with a try the error is %scaught, without one the program ends with class=%s code=%s" % ("" if propagates else "not ", none.get("class"), none.get("code")))
        return Verdict(True, True, "cberr:%s" % ("caught" if propagates else "no-error"))

    def judge_one(self, spec, r):
        c = r.get("class")
        out = r.get("out", "")
        err = r.get("err", "")
        reached = out.startswith("M\n")
        if c == "ok" and spec[0] == "sortcmp" and "perm false" in out or (c == "ok" and spec[0] == "sortcmp" and "perm true false" in out):
            return Verdict(False, True, "sortcmp:not-a-permutation", "List.sort returned a list that is not a permutation of its receiver: %r" % out[-120:])
        if c in ("ok", "deadlock"):
            return Verdict(True, reached, "%s:%s" % (spec[0], c))
        if c == "runtime_error":
            if r.get("code") == 1 and "Fatal error deadlock" not in err and "exit" not in self.source(spec):
                # a language level error must come with a traceback naming an error class
                if not re.search(r"^\w*Error\w*:? ?|Traceback|\w+: ", err, re.M):
                    return Verdict(False, reached, "no-traceback", "runtime error status without a traceback: err=%r" % err[:200])
                if "internal error" in err.lower() or "Internal" in err[:40]:
                    return Verdict(False, reached, "internal-error", "internal error reported: %r" % err[:300])
            nontriv = reached and " expected " not in err
            return Verdict(True, nontriv, "%s:err" % spec[0])
        if c == "compile_error":
            return Verdict(True, False, "%s:compile_error" % spec[0])
        if c == "step_limit":
            if spec[0] in ("catchcls", "cberr", "mutiter", "sortcmp", "launchkinds", "cbgrow"):
                return Verdict(False, True, "%s:hang" % spec[0], "a loop free program did not end within %d steps" % 5000000)
            return Verdict(True, False, "%s:step_limit" % spec[0])
        if r.get("mismatch", 0) and False:
            pass
        why = r.get("panic") or r.get("signal") or ""
        v = Verdict(False, True, "%s:%s" % (spec[0], c), "%s: %s" % (c, why))
        v.finding = attribute(spec, r, self.source(spec))
        return v


def attribute(spec, r, src):
    """known-finding guards: (region of the input space) and (shape of the deviation).
    The regions are the ones listed in known_findings.json; anything else is a violation."""
    c = r.get("class")
    p = r.get("panic") or ""
    k = spec[0]
    crash = c in ("panic", "signal")
    # KF-C16-objparam, -iterproto, -chancap and -exitcb were repaired (D39-D41): no guard, a recurrence is a violation
    if k == "sub" and (crash or c == "timeout"):
        return "KF-C16-subclass"
    if k == "prot":
        name = spec[1]
        if name in ("err_noinit", "err_noinit_caught", "err_noinit_sub") and crash:
            return "KF-C16-subclass"
        if name in ("str", "str_interp", "str_in_list", "str_in_map", "str_in_tuple", "err_init", "err_init_uncaught", "assert_str") and (crash or c == "timeout"):
            return "KF-C16-strproto"
    if k == "err" and spec[1] in (22, 23) and crash:
        return "KF-C16-strproto"
    if k == "selfc" and c == "signal":
        return "KF-C16-nativerec"
    if k == "rec":
        # (recursion through user code and native callbacks was repaired by D58: no guard, only recursion inside natives stays open above)
        if spec[1].endswith("/caught_in_callback") and "increased roots" in p:
            return "KF-C16-roots"  # fixed: reported as a violation if it returns (fixed entries suppress nothing)
    return None


BUILDS = {"quick": ["checked"], "thorough": ["checked", "plain"]}


def main(tier):
    t0 = time.time()
    chk = C16("checked")
    merged = explore(chk, tier, cap_s=(1500 if tier == "thorough" else 240))
    cov = {}
    if tier == "thorough":
        # the same space on the build users run (no assertions): crashes there are memory faults, not panics
        chk2 = C16("plain")
        m2 = explore(chk2, tier, cap_s=1200)
        cov["plain_build"] = {"evaluations": m2["evaluations"], "failing_specs": m2["fail_count"], "classes": m2["classes"],
                              "known": {k: v["count"] for k, v in m2["known"].items()}, "capped": m2["capped"]}
        for f in m2["failures"]:
            f["reason"] = "[plain build] " + f["reason"]
            f["build"] = "plain"
        merged["failures"].extend(m2["failures"][:20])
        merged["fail_count"] += m2["fail_count"]
        merged["evaluations"] += m2["evaluations"]
        for fid, kf in m2["known"].items():
            m = merged["known"].setdefault(fid, {"count": 0, "example": kf["example"]})
            m["count"] += kf["count"]
    return report.finish(chk, tier, merged, t0, coverage_extra=cov)
