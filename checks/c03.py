"""C03 — classes: construction, fields, dispatch, inheritance, super and bound methods.

Hierarchies A; B : A; C : B plus an unrelated D (a field holding a callable shadows a
method). Factors: which fields A's init assigns and in which order; whether/where B's
init calls super.init and which fields it adds; whether C has its own init; which of
m / n are overridden in B and C. Every program runs the same probe function over
instances of all classes (one call site reached by several receiver classes): invoke,
get-then-call, bound method stored and called later, dispatch through self, super calls
from overriding methods, field reads/writes through self.x / @x / obj.x from methods,
subclasses and closures, += on own and on a foreign instance, static methods, undeclared
fields and methods.
Oracle: reference class model (vlib/layref.py).
"""
import itertools, time
from vlib.engine import Check, Verdict, explore
from vlib import report, layref as L

def N(x): return ["num", x]
def S(x): return ["str", x]
def V(x): return ["var", x]
def call(f, *a): return ["call", V(f) if isinstance(f, str) else f, list(a)]
def inv(o, m, *a): return ["invoke", o, m, list(a)]
SELF = ["self"]
def sget(n): return ["get", SELF, n]
def sset(n, v): return ["set", SELF, n, v]

A_INIT = [[], ["x"], ["x", "y"], ["y", "x"]]
B_SUPER = ["none", "first", "last"]
B_FIELDS = [[], ["z"], ["y", "z"], ["z", "y"]]


def guarded(tag, expr):
    return ["try", [["print", [S(tag), expr]]], "e", None, [["print", [S(tag + "!"), inv(inv(V("e"), "cls"), "name")]]]]


def program(a_init, b_super, b_fields, c_init, b_m, b_n, c_m, at_syntax):
    def fld_set(n, v):
        return ["expr", ["atset", n, v] if at_syntax else sset(n, v)]
    def fld_get(n):
        return ["at", n] if at_syntax else sget(n)
    A = ["class", "A", None, [
        ("method", "init", [], [fld_set(f, S("A" + f)) for f in a_init]),
        ("method", "m", [], [["return", S("A.m")]]),
        ("method", "n", [], [["return", ["bin", "+", S("A.n>"), inv(SELF, "m")]]]),
        ("method", "getx", [], [["return", fld_get("x")]]),
        ("method", "setx", ["v"], [fld_set("x", V("v")), ["return", sget("x")]]),
        ("method", "addx", ["v"], [["expr", ["opset", "+", SELF, "x", V("v")]], ["return", fld_get("x")]]),
        ("method", "bump", ["o"], [["expr", ["opset", "+", V("o"), "x", S("!")]], ["return", ["get", V("o"), "x"]]]),
        ("method", "clos", [], [["return", ["lambda", [], fld_get("x"), True]]]),
        ("method", "who", [], [["return", inv(inv(SELF, "cls"), "name")]]),
        ("static", "make", [], [["return", call("A")]]),
    ]]
    binit = [fld_set(f, S("B" + f)) for f in b_fields]
    sup = ["expr", ["super", "init", []]]
    if b_super == "first":
        binit = [sup] + binit
    elif b_super == "last":
        binit = binit + [sup]
    bm = [("method", "init", [], binit)]
    if b_m:
        bm.append(("method", "m", [], [["return", ["bin", "+", S("B.m>"), ["super", "m", []]]]]))
    if b_n:
        bm.append(("method", "n", [], [["return", ["bin", "+", S("B.n>"), ["super", "n", []]]]]))
    bm.append(("method", "getz", [], [["return", fld_get("z")]]))
    B = ["class", "B", "A", bm]
    cm = []
    if c_init:
        cm.append(("method", "init", [], [["expr", ["super", "init", []]], fld_set("x", S("Cx")), fld_set("w", S("Cw"))]))
    if c_m:
        cm.append(("method", "m", [], [["let", "f", ["super", "m", None]], ["return", ["bin", "+", S("C.m>"), call("f")]]]))
    C = ["class", "C", "B", cm]
    D = ["class", "D", None, [("method", "init", [], [fld_set("x", S("Dx")), fld_set("m", ["lambda", [], S("D.field"), True])]),
                              ("method", "m", [], [["return", S("D.method")]]), ("method", "n", [], [["return", ["bin", "+", S("D.n>"), inv(SELF, "m")]]])]]
    o = V("o")
    probe = [
        guarded("who", inv(o, "who")), guarded("m", inv(o, "m")), ["try", [["let", "f", ["get", o, "m"]], ["print", [S("gm"), call("f")]]], "e", None, [["print", [S("gm!"), inv(inv(V("e"), "cls"), "name")]]]],
        guarded("n", inv(o, "n")), guarded("x", ["get", o, "x"]), guarded("y", ["get", o, "y"]), guarded("z", ["get", o, "z"]), guarded("w", ["get", o, "w"]),
        guarded("getx", inv(o, "getx")), guarded("getz", inv(o, "getz")),
        ["try", [["let", "bm", ["get", o, "getx"]], ["let", "cl", inv(o, "clos")], ["print", [S("setx"), inv(o, "setx", S("S"))]], ["print", [S("bound"), call("bm"), call("cl")]],
                 ["print", [S("addx"), inv(o, "addx", S("+"))]], ["print", [S("bound2"), call("bm"), call("cl")]]], "e", None, [["print", [S("mut!"), inv(inv(V("e"), "cls"), "name")]]]],
        guarded("bump", inv(V("helper"), "bump", o)), guarded("x2", ["get", o, "x"]),
        guarded("wy", ["set", o, "y", S("Y")]), guarded("y2", ["get", o, "y"]),
        guarded("nope", ["get", o, "nope"]), guarded("nopecall", inv(o, "nope")), guarded("nopeset", ["set", o, "nope", N(1)]),
        guarded("isA", ["list", [inv(o, "isA?", V("A")), inv(o, "isA?", V("B")), inv(o, "isA?", V("D"))]]),
    ]
    main = [["let", "helper", call("A")], ["fn", "probe", ["o"], probe + [["return", ["nil"]]]],
            ["for", "k", ["list", [V("A"), V("B"), V("C"), V("D"), V("B"), V("A")]], [["let", "ob", ["nil"]], ["try", [["expr", ["assign", "ob", call(V("k"))]]], "e", None, [["print", [S("ctor!"), inv(inv(V("e"), "cls"), "name")]]]],
                                                                                         ["if", ["bin", "!=", V("ob"), ["nil"]], [["expr", call("probe", V("ob"))]], None]]],
            guarded("static", ["get", inv(V("A"), "make"), "x"]), guarded("static_inst", inv(call("A"), "make")),
            guarded("helperx", ["get", V("helper"), "x"])]
    return [A, B, C, D] + main


class C03(Check):
    id = "C03"
    level = "exploration"
    rule = ""
    assumptions = ["reference class model in vlib/layref.py: per-class declared field sets (fields assigned on self in the initialisers of the class and its ancestors, nil until assigned), most-derived dispatch, lexical super, bound receivers, a field holding a callable shadows a method, PropertyError for undeclared names"]

    def gen(self, tier):
        for f in itertools.product(range(len(A_INIT)), B_SUPER, range(len(B_FIELDS)), (False, True), (False, True), (False, True), (False, True), (False, True)):
            yield f

    def ast(self, spec):
        return program(A_INIT[spec[0]], spec[1], B_FIELDS[spec[2]], *spec[3:])

    def describe(self, spec):
        return "A.init=%s B.super=%s B.fields=%s C.init=%s B.m=%s B.n=%s C.m=%s @syntax=%s" % (A_INIT[spec[0]], spec[1], B_FIELDS[spec[2]], *spec[3:])

    def build(self, spec):
        stmts = self.ast(spec)
        src, _ = L.render(stmts)
        try:
            exp = L.Interp().run(stmts)[:3]
        except L.Unsupported as u:
            exp = ("unsupported", str(u), None)
        return [{"src": src, "step_limit": 500000}], exp

    def judge(self, spec, exp, rs):
        r = rs[0]
        cls, out, ecls = exp
        if cls != "ok":
            v = Verdict(False, False, "reference", "reference did not evaluate its own scenario: %s %s %s" % (cls, out[-300:], ecls))
            v.extra["machinery"] = True
            return v
        if r.get("class") != "ok" or r.get("out") != out:
            exp_l, got_l = out.split("\n"), r.get("out", "").split("\n")
            k = next((i for i, (a, b) in enumerate(zip(exp_l, got_l)) if a != b), min(len(exp_l), len(got_l)))
            return Verdict(False, True, "mismatch", "first difference at output line %d: expected %r got %r (context: %r); class=%s err=%r %s" % (
                k, exp_l[k] if k < len(exp_l) else None, got_l[k] if k < len(got_l) else None, exp_l[max(0, k - 3):k], r.get("class"), r.get("err", "")[-200:], r.get("panic") or ""))
        return Verdict(True, True, "ok")


def main(tier):
    t0 = time.time()
    chk = C03()
    chk.rule = ("all combinations of: A.init field order (4) x B's super.init placement (3) x B's added fields/order (4) x C.init present x B overrides m x B overrides n x C "
                "overrides m x field syntax (self.x | @x) = 1536 hierarchies; each program probes instances of A, B, C, D, B, A through one probe function (about 25 "
                "guarded probes per instance: invoke, get-then-call, bound methods, dispatch through self, super, field reads/writes, += on own and foreign instance, "
                "closures over self, undeclared names, static methods). non-trivial = every program")
    merged = explore(chk, tier, cap_s=600)
    return report.finish(chk, tier, merged, t0)
