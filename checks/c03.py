"""C03 — classes: construction, fields, dispatch, inheritance, super and bound methods.

Hierarchies A; B : A; C : B plus an unrelated D (a field holding a callable shadows a
method). Factors: which fields A's init assigns and in which order; whether/where B's
init calls super.init and which fields it adds; whether C has its own init; which of
m / n are overridden in B and C. Every program runs the same probe function over
instances of all classes (one call site reached by several receiver classes): invoke,
get-then-call, bound method stored and called later, dispatch through self, super calls
from overriding methods, field reads/writes through self.x / @x / obj.x from methods,
subclasses and closures, += on own and on a foreign instance, static methods, undeclared
fields and methods. Lvalue family: a class that owns a field x (at every position, with and
without an explicit super class) assigns (= and +=) through 11 lvalue shapes (self.inner.x,
@inner.x, self.holder.inner.x, self.items[0].x, self.mk().x, o.x, o.inner.x, a local, ...)
into objects of another class whose field x sits at a different position; every field of
every object is printed afterwards.
Oracle: reference class model (vlib/layref.py).
"""
import itertools, time
from vlib.engine import Check, Verdict, explore
from vlib import report, layref as L

def N(x): return ["num", x]
def S(x): return ["str", x]
def V(x): return ["var", x]
def call(f, *a): return ["call", V(f) if isinstance(f, str) else f, list(a)]
def inv(o, m, *a): return ["invoke", o, m, list(a)]
SELF = ["self"]
def sget(n): return ["get", SELF, n]
def sset(n, v): return ["set", SELF, n, v]

A_INIT = [[], ["x"], ["x", "y"], ["y", "x"]]
B_SUPER = ["none", "first", "last"]
B_FIELDS = [[], ["z"], ["y", "z"], ["z", "y"]]


def guarded(tag, expr):
    return ["try", [["print", [S(tag), expr]]], "e", None, [["print", [S(tag + "!"), inv(inv(V("e"), "cls"), "name")]]]]


def program(a_init, b_super, b_fields, c_init, b_m, b_n, c_m, at_syntax):
    def fld_set(n, v):
        return ["expr", ["atset", n, v] if at_syntax else sset(n, v)]
    def fld_get(n):
        return ["at", n] if at_syntax else sget(n)
    A = ["class", "A", None, [
        ("method", "init", [], [fld_set(f, S("A" + f)) for f in a_init]),
        ("method", "m", [], [["return", S("A.m")]]),
        ("method", "n", [], [["return", ["bin", "+", S("A.n>"), inv(SELF, "m")]]]),
        ("method", "getx", [], [["return", fld_get("x")]]),
        ("method", "setx", ["v"], [fld_set("x", V("v")), ["return", sget("x")]]),
        ("method", "addx", ["v"], [["expr", ["opset", "+", SELF, "x", V("v")]], ["return", fld_get("x")]]),
        ("method", "bump", ["o"], [["expr", ["opset", "+", V("o"), "x", S("!")]], ["return", ["get", V("o"), "x"]]]),
        ("method", "clos", [], [["return", ["lambda", [], fld_get("x"), True]]]),
        ("method", "who", [], [["return", inv(inv(SELF, "cls"), "name")]]),
        ("static", "make", [], [["return", call("A")]]),
    ]]
    binit = [fld_set(f, S("B" + f)) for f in b_fields]
    sup = ["expr", ["super", "init", []]]
    if b_super == "first":
        binit = [sup] + binit
    elif b_super == "last":
        binit = binit + [sup]
    bm = [("method", "init", [], binit)]
    if b_m:
        bm.append(("method", "m", [], [["return", ["bin", "+", S("B.m>"), ["super", "m", []]]]]))
    if b_n:
        bm.append(("method", "n", [], [["return", ["bin", "+", S("B.n>"), ["super", "n", []]]]]))
    bm.append(("method", "getz", [], [["return", fld_get("z")]]))
    B = ["class", "B", "A", bm]
    cm = []
    if c_init:
        cm.append(("method", "init", [], [["expr", ["super", "init", []]], fld_set("x", S("Cx")), fld_set("w", S("Cw"))]))
    if c_m:
        cm.append(("method", "m", [], [["let", "f", ["super", "m", None]], ["return", ["bin", "+", S("C.m>"), call("f")]]]))
    C = ["class", "C", "B", cm]
    D = ["class", "D", None, [("method", "init", [], [fld_set("x", S("Dx")), fld_set("m", ["lambda", [], S("D.field"), True])]),
                              ("method", "m", [], [["return", S("D.method")]]), ("method", "n", [], [["return", ["bin", "+", S("D.n>"), inv(SELF, "m")]]])]]
    o = V("o")
    probe = [
        guarded("who", inv(o, "who")), guarded("m", inv(o, "m")), ["try", [["let", "f", ["get", o, "m"]], ["print", [S("gm"), call("f")]]], "e", None, [["print", [S("gm!"), inv(inv(V("e"), "cls"), "name")]]]],
        guarded("n", inv(o, "n")), guarded("x", ["get", o, "x"]), guarded("y", ["get", o, "y"]), guarded("z", ["get", o, "z"]), guarded("w", ["get", o, "w"]),
        guarded("getx", inv(o, "getx")), guarded("getz", inv(o, "getz")),
        ["try", [["let", "bm", ["get", o, "getx"]], ["let", "cl", inv(o, "clos")], ["print", [S("setx"), inv(o, "setx", S("S"))]], ["print", [S("bound"), call("bm"), call("cl")]],
                 ["print", [S("addx"), inv(o, "addx", S("+"))]], ["print", [S("bound2"), call("bm"), call("cl")]]], "e", None, [["print", [S("mut!"), inv(inv(V("e"), "cls"), "name")]]]],
        guarded("bump", inv(V("helper"), "bump", o)), guarded("x2", ["get", o, "x"]),
        guarded("wy", ["set", o, "y", S("Y")]), guarded("y2", ["get", o, "y"]),
        guarded("nope", ["get", o, "nope"]), guarded("nopecall", inv(o, "nope")), guarded("nopeset", ["set", o, "nope", N(1)]),
        guarded("isA", ["list", [inv(o, "isA?", V("A")), inv(o, "isA?", V("B")), inv(o, "isA?", V("D"))]]),
    ]
    main = [["let", "helper", call("A")], ["fn", "probe", ["o"], probe + [["return", ["nil"]]]],
            ["for", "k", ["list", [V("A"), V("B"), V("C"), V("D"), V("B"), V("A")]], [["let", "ob", ["nil"]], ["try", [["expr", ["assign", "ob", call(V("k"))]]], "e", None, [["print", [S("ctor!"), inv(inv(V("e"), "cls"), "name")]]]],
                                                                                         ["if", ["bin", "!=", V("ob"), ["nil"]], [["expr", call("probe", V("ob"))]], None]]],
            guarded("static", ["get", inv(V("A"), "make"), "x"]), guarded("static_inst", inv(call("A"), "make")),
            guarded("helperx", ["get", V("helper"), "x"])]
    return [A, B, C, D] + main


LV_SHAPES = ["self.inner.x", "@inner.x", "self.holder.inner.x", "self.items[0].x", "self.mk().x", "o.x", "o.inner.x", "local.x", "self.inner.y", "self.x", "@x"]


def lvalue_program(outer_fields, inner_fields, outer_has_super, shape, compound):
    """class Outer owns fields (one of them named like a field of Inner, at another position) and writes through every lvalue shape into
    objects of class Inner whose layout differs; afterwards every field of every object is printed"""
    def mk_init(fields, tagp):
        return [["expr", sset(f, S(tagp + f))] for f in fields]
    inner = ["class", "Inner", None, [("method", "init", ["t"], [["expr", sset(f, ["bin", "+", V("t"), S(f)])] for f in inner_fields]),
                                      ("method", "show", [], [["return", ["list", [sget(f) for f in inner_fields]]]])]]
    holder = ["class", "Holder", None, [("method", "init", [], [["expr", sset("pad", S("pad"))], ["expr", sset("inner", call("Inner", S("h")))]])]]
    base = ["class", "OBase", None, [("method", "init", [], [["expr", sset("basef", S("bf"))]]), ("method", "bm", [], [["return", S("bm")]])]]
    val = S("W")
    def tgt(obj, name):
        if compound:
            return ["expr", ["opset", "+", obj, name, val]]
        return ["expr", ["set", obj, name, val]]
    inner_obj = {"self.inner.x": sget("inner"), "@inner.x": ["at", "inner"], "self.holder.inner.x": ["get", sget("holder"), "inner"], "self.items[0].x": ["index", sget("items"), N(0)],
                 "self.mk().x": inv(SELF, "mk"), "o.x": V("o"), "o.inner.x": ["get", V("o"), "inner"], "local.x": V("local"), "self.inner.y": sget("inner")}
    name = "y" if shape == "self.inner.y" else "x"
    if shape in ("self.x", "@x"):
        stmt = tgt(SELF, "x") if shape == "self.x" else (["expr", ["atset", "x", ["bin", "+", ["at", "x"], val] if compound else val]])
        pre = []
    else:
        pre = [["let", "local", sget("inner")]] if shape == "local.x" else []
        stmt = tgt(inner_obj[shape], name)
    read_back = [["print", [S("self"), ["list", [sget(f) for f in outer_fields if f not in ("inner", "holder", "items", "made")]]]], ["print", [S("inner"), inv(sget("inner"), "show")]],
                 ["print", [S("holder"), inv(["get", sget("holder"), "inner"], "show")]], ["print", [S("items"), inv(["index", sget("items"), N(0)], "show")]],
                 ["print", [S("made"), inv(sget("made"), "show")]], ["print", [S("o"), inv(V("o"), "show") if shape != "o.inner.x" else inv(["get", V("o"), "inner"], "show")]]]
    init_body = ([["expr", ["super", "init", []]]] if outer_has_super else [])
    for f in outer_fields:
        if f == "inner":
            init_body.append(["expr", sset("inner", call("Inner", S("i")))])
        elif f == "holder":
            init_body.append(["expr", sset("holder", call("Holder"))])
        elif f == "items":
            init_body.append(["expr", sset("items", ["list", [call("Inner", S("l"))]])])
        elif f == "made":
            init_body.append(["expr", sset("made", call("Inner", S("m")))])
        else:
            init_body.append(["expr", sset(f, S("O" + f))])
    outer = ["class", "Outer", "OBase" if outer_has_super else None, [("method", "init", [], init_body), ("method", "mk", [], [["return", sget("made")]]),
                                                                        ("method", "run", ["o"], pre + [["try", [stmt], "e", None, [["print", [S("err"), inv(inv(V("e"), "cls"), "name")]]]]] + read_back + [["return", ["nil"]]])]]
    arg = call("Inner", S("a")) if shape != "o.inner.x" else call("Holder")
    return [inner, holder, base, outer, ["expr", inv(call("Outer"), "run", arg)]]


def cat(*xs):
    return xs[0] if len(xs) == 1 else ["bin", "+", xs[0], cat(*xs[1:])]


def factory_program(seq, leaf, order, base_init):
    """classes declared inside functions and evaluated several times: `seq` is the sequence of factories (F or G) stacked on the
    base class, every layer overrides m(), m1(x), viaval() and who() through super (zero-argument call, call with an argument,
    super method taken as a value, initialiser chaining); the receivers call them in the order `order`, twice"""
    base_methods = [("method", "m", [], [["return", S("plain")]]), ("method", "m1", ["x"], [["return", cat(S("A1:"), V("x"))]]),
                    ("method", "who", [], [["return", S("A")]])]
    if base_init:
        base_methods.insert(0, ("method", "init", [], [["expr", sset("depth", N(0))], ["expr", sset("tags", S(""))]]))
    prog = [["class", "A", None, base_methods]]

    def factory(fname, mark):
        ms = [("method", "m", [], [["return", cat(V("tag"), S(mark + "("), ["super", "m", []], S(")"))]]),
              ("method", "m1", ["x"], [["return", cat(V("tag"), S("["), ["super", "m1", [V("x")]], S("]"))]]),
              ("method", "viaval", [], [["let", "f", ["super", "m", None]], ["return", cat(V("tag"), S("<"), call(V("f")), S(">"))]]),
              ("method", "who", [], [["return", cat(V("tag"), S("/"), ["super", "who", []])]])]
        if base_init:
            ms.insert(0, ("method", "init", [], [["expr", ["super", "init", []]], ["expr", sset("depth", ["bin", "+", sget("depth"), N(1)])], ["expr", sset("tags", cat(sget("tags"), V("tag")))]]))
        return ["fn", fname, ["P", "tag"], [["class", "W", "P", ms], ["return", V("W")]]]
    prog += [factory("F", "f"), factory("G", "g")]
    names = ["A"]
    for k, fk in enumerate(seq):
        nm = "K%d" % k
        prog.append(["let", nm, call(fk, V(names[-1]), S("t%d" % k))])
        names.append(nm)
    if leaf:
        lm = [("method", "m", [], [["return", cat(S("leaf+"), ["super", "m", []])]]), ("method", "who", [], [["return", cat(S("L/"), ["super", "who", []])]])]
        prog.append(["class", "Leaf", names[-1], lm])
        names.append("Leaf")
    recv = names[1:]
    for rnd in (0, 1):
        for k in order:
            r = recv[k % len(recv)]
            o = call(r)
            items = [S(r), inv(o, "m"), inv(call(r), "m1", S("q")), inv(call(r), "viaval"), inv(call(r), "who")]
            if base_init:
                items += [["get", call(r), "depth"], ["get", call(r), "tags"]]
            prog.append(["print", items])
    return prog


def selfcap_program(where, use, early, sub):
    """`self` captured by a closure created inside an initialiser or a method: the closure is stored in a field / called at once / returned,
    with and without an early return in the initialiser, in a base class and in a subclass that chains to it"""
    get = ["lambda", [], [["return", cat(S("<"), sget("x"), S(">"))]], False]
    bump = ["lambda", [], [["expr", sset("x", cat(sget("x"), S("+")))], ["return", SELF]], False]
    body = [["expr", sset("x", S("x0"))]]
    if use == "field":
        body += [["expr", sset("g", get)], ["expr", sset("b", bump)]]
    elif use == "call":
        body += [["let", "b", bump], ["expr", call(V("b"))], ["expr", sset("g", get)], ["expr", sset("b", V("b"))]]
    else:
        body += [["let", "b", bump], ["expr", sset("seen", ["get", call(V("b")), "x"])], ["expr", sset("g", get)], ["expr", sset("b", V("b"))]]
    if early:
        body += [["if", ["bin", "==", V("flag"), N(1)], [["return", None]], None], ["expr", sset("late", S("late"))]]
    methods = []
    if where == "init":
        methods.append(("method", "init", ["flag"], body))
    else:
        methods.append(("method", "init", ["flag"], [["expr", sset("x", S("pre"))], ["expr", sset("g", ["nil"])], ["expr", sset("b", ["nil"])], ["expr", sset("seen", ["nil"])], ["expr", sset("late", ["nil"])],
                                                    ["expr", inv(SELF, "setup", V("flag"))]]))
        methods.append(("method", "setup", ["flag"], body + [["return", SELF]]))
    methods.append(("method", "who", [], [["return", cat(S("K:"), sget("x"))]]))
    prog = [["class", "K", None, methods]]
    cls = "K"
    if sub:
        prog.append(["class", "S", "K", [("method", "init", ["flag"], [["expr", ["super", "init", [V("flag")]]], ["expr", sset("own", ["lambda", [], [["return", cat(S("own:"), sget("x"))]], False])]]),
                                         ("method", "who", [], [["return", cat(S("S>"), ["super", "who", []])]])]])
        cls = "S"
    for flag in (0, 1):
        o = "o%d" % flag
        prog += [["let", o, call(cls, N(flag))],
                 ["print", [inv(V(o), "who"), call(["get", V(o), "g"]), ["get", call(["get", V(o), "b"]), "x"], call(["get", V(o), "g"]), ["get", V(o), "x"], inv(inv(V(o), "cls"), "name")]]]
        if sub:
            prog.append(["print", [call(["get", V(o), "own"])]])
        if early:
            prog.append(["try", [["print", [["get", V(o), "late"]]]], "e", None, [["print", [S("late!"), inv(inv(V("e"), "cls"), "name")]]]])
    return prog


def initchain_program(has_init, err_base):
    """a chain of classes L0 < L1 < ... in which every level independently declares an initialiser or not; a declared one chains to the
    nearest one above by `super.init(...)` (through the levels that only inherit it); every class is constructed, its initialiser
    is also reached by name (`o.init(..)`, bound `let f = o.init`), optionally on top of a built-in error class"""
    prog = []
    prev = err_base
    n = len(has_init)
    above = err_base is not None  # an initialiser is visible above level k (built-in Error.init(message))
    for k in range(n):
        members = [("method", "who", [], [["return", S("L%d" % k)]])]
        if has_init[k]:
            body = []
            if above:
                body.append(["expr", ["super", "init", [cat(S("m%d:" % k), V("v"))] if (err_base is not None and not any(has_init[:k])) else [cat(V("v"), S(">%d" % k))]]])
            body.append(["expr", sset("f%d" % k, cat(S("f%d=" % k), V("v")))])
            members.insert(0, ("method", "init", ["v"], body))
            above = True
        prog.append(["class", "L%d" % k, prev, members])
        prev = "L%d" % k
    for k in range(n):
        visible = (err_base is not None) or any(has_init[:k + 1])
        args = [S("a%d" % k)] if visible else []
        o = "o%d" % k
        shown = [inv(V(o), "who")] + [["get", V(o), "f%d" % j] for j in range(k + 1) if has_init[j]]
        if err_base is not None:
            shown.append(["get", V(o), "message"])
        prog += [["try", [["let", o, call("L%d" % k, *args)], ["print", shown]] +
                  ([["expr", inv(V(o), "init", S("again"))], ["print", [S("re")] + shown[1:]], ["let", "bi%d" % k, ["get", V(o), "init"]], ["expr", call(V("bi%d" % k), S("bound"))], ["print", [S("bound")] + shown[1:]]] if visible else []),
                  "e", None, [["print", [S("L%d!" % k), inv(inv(V("e"), "cls"), "name")]]]]]
    return prog


def override_program(matrix):
    """dispatch matrix: classes K0 < K1 < K2, methods m0.. ; per class and method: 0 absent, 1 plain, 2 calls super.m, 3 calls self.m(next).
    Every method of every class is called on an instance of every class (invoke and get-then-call), and all instances go through one
    shared call site per method in the order K0 K1 K2 K2 K1 K0."""
    prog = []
    prev = None
    nm = len(matrix[0])
    for k, row in enumerate(matrix):
        members = []
        for j, st in enumerate(row):
            tag = S("K%d.m%d" % (k, j))
            if st == 1:
                members.append(("method", "m%d" % j, [], [["return", tag]]))
            elif st == 2:
                members.append(("method", "m%d" % j, [], [["return", cat(tag, S(">"), ["super", "m%d" % j, []])]]))
            elif st == 3:
                members.append(("method", "m%d" % j, [], [["return", cat(tag, S("~"), inv(SELF, "m%d" % (j + 1)))]]))
        prog.append(["class", "K%d" % k, prev, members])
        prev = "K%d" % k
    for j in range(nm):
        prog.append(["fn", "site%d" % j, ["o"], [["return", inv(V("o"), "m%d" % j)]]])
    for k in range(len(matrix)):
        prog.append(["let", "o%d" % k, call("K%d" % k)])
    for k in range(len(matrix)):
        for j in range(nm):
            prog.append(["try", [["print", [S("i%d%d" % (k, j)), inv(V("o%d" % k), "m%d" % j)]]], "e", None, [["print", [S("i%d%d!" % (k, j)), inv(inv(V("e"), "cls"), "name")]]]])
            prog.append(["try", [["let", "b%d%d" % (k, j), ["get", V("o%d" % k), "m%d" % j]], ["print", [S("g%d%d" % (k, j)), call(V("b%d%d" % (k, j)))]]], "e", None,
                         [["print", [S("g%d%d!" % (k, j)), inv(inv(V("e"), "cls"), "name")]]]])
    order = list(range(len(matrix))) + list(reversed(range(len(matrix))))
    for j in range(nm):
        for k in order:
            prog.append(["try", [["print", [S("s%d%d" % (k, j)), call("site%d" % j, V("o%d" % k))]]], "e", None, [["print", [S("s%d%d!" % (k, j)), inv(inv(V("e"), "cls"), "name")]]]])
    return prog


def override_rows(nm):
    per_method = [(0, 1, 2, 3) if j < nm - 1 else (0, 1, 2) for j in range(nm)]
    return list(itertools.product(*per_method))


class C03(Check):
    id = "C03"
    level = "exploration"
    rule = ""
    assumptions = ["reference class model in vlib/layref.py: per-class declared field sets (fields assigned on self in the initialisers of the class and its ancestors, nil until assigned), most-derived dispatch, lexical super, bound receivers, a field holding a callable shadows a method, PropertyError for undeclared names"]

    def gen(self, tier):
        for f in itertools.product(range(len(A_INIT)), B_SUPER, range(len(B_FIELDS)), (False, True), (False, True), (False, True), (False, True), (False, True)):
            yield f
        base = ["inner", "holder", "items", "made"]
        for xpos in (0, 1, 2, 5):
            for inner_fields in (["x"], ["x", "y"], ["y", "x"], ["q", "y", "x"]):
                of = list(base)
                of.insert(min(xpos, len(of)), "x")
                of.insert(0 if xpos else len(of), "y")
                for sup in (False, True):
                    for shape in LV_SHAPES:
                        for compound in (False, True):
                            yield ("lvalue", tuple(of), tuple(inner_fields), sup, shape, compound)
        for depth in ((2, 3, 4, 5, 6) if tier == "thorough" else (2, 3, 4)):
            for has_init in itertools.product((False, True), repeat=depth):
                for err_base in (None,):  # the reference does not model the built-in Error.init as a method reachable by name
                    yield ("initchain", has_init, err_base)
        for where in ("init", "method"):
            for use in ("field", "call", "chain"):
                for early in (False, True):
                    for sub in (False, True):
                        yield ("selfcap", where, use, early, sub)
        # dispatch matrices: which class of a chain of three defines which method how
        for m in itertools.product(override_rows(3 if tier == "thorough" else 2), repeat=3):
            yield ("override", m)
        # class factories: the same class declaration evaluated several times and stacked
        for d in ((1, 2, 3, 4) if tier == "thorough" else (1, 2, 3)):
            for seq in itertools.product("FG", repeat=d):
                for leaf in (False, True):
                    n = d + (1 if leaf else 0)
                    for order in itertools.permutations(range(n)):
                        for base_init in (False, True):
                            yield ("factory", seq, leaf, order, base_init)

    def ast(self, spec):
        if spec[0] == "lvalue":
            return lvalue_program(list(spec[1]), list(spec[2]), spec[3], spec[4], spec[5])
        if spec[0] == "factory":
            return factory_program(spec[1], spec[2], spec[3], spec[4])
        if spec[0] == "selfcap":
            return selfcap_program(*spec[1:])
        if spec[0] == "initchain":
            return initchain_program(spec[1], spec[2])
        if spec[0] == "override":
            return override_program(spec[1])
        return program(A_INIT[spec[0]], spec[1], B_FIELDS[spec[2]], *spec[3:])

    def describe(self, spec):
        if spec[0] == "lvalue":
            return "lvalue shape=%s compound=%s outer fields=%s (super=%s) inner fields=%s" % (spec[4], spec[5], list(spec[1]), spec[3], list(spec[2]))
        if spec[0] == "initchain":
            return "initialiser chain: levels with an init of their own=%s on top of %s" % (list(spec[1]), spec[2] or "no base class")
        if spec[0] == "override":
            return "dispatch matrix (rows K0<K1<K2, per method 0 absent / 1 plain / 2 calls super / 3 calls the next method on self): %s" % (list(map(list, spec[1])),)
        if spec[0] == "selfcap":
            return "self captured by a closure inside %s, closure %s, early return=%s, subclass=%s" % spec[1:]
        if spec[0] == "factory":
            return "class factories stacked=%s leaf_subclass=%s call order=%s base_init=%s" % ("".join(spec[1]), spec[2], list(spec[3]), spec[4])
        return "A.init=%s B.super=%s B.fields=%s C.init=%s B.m=%s B.n=%s C.m=%s @syntax=%s" % (A_INIT[spec[0]], spec[1], B_FIELDS[spec[2]], *spec[3:])

    def build(self, spec):
        stmts = self.ast(spec)
        try:
            exp = L.Interp().run(stmts)[:3]
        except L.Unsupported as u:
            exp = ("unsupported", str(u), None)
        # the same AST printed plainly and with (run-time erased) type annotations, generic parameters and member declarations
        return [{"src": L.render(stmts, lay)[0], "step_limit": 500000} for lay in ("min", "typed")], exp

    def judge(self, spec, exp, rs):
        last = None
        for k, r in enumerate(rs):
            last = self.judge1(spec, exp, [r])
            if not last.ok:
                if k == 1:
                    last.reason = "[typed layout] " + last.reason
                return last
        return last

    def judge1(self, spec, exp, rs):
        r = rs[0]
        cls, out, ecls = exp
        if cls != "ok":
            v = Verdict(False, False, "reference", "reference did not evaluate its own scenario: %s %s %s" % (cls, out[-300:], ecls))
            v.extra["machinery"] = True
            return v
        if r.get("class") != "ok" or r.get("out") != out:
            exp_l, got_l = out.split("\n"), r.get("out", "").split("\n")
            k = next((i for i, (a, b) in enumerate(zip(exp_l, got_l)) if a != b), min(len(exp_l), len(got_l)))
            return Verdict(False, True, "mismatch", "first difference at output line %d: expected %r got %r (context: %r); class=%s err=%r %s" % (
                k, exp_l[k] if k < len(exp_l) else None, got_l[k] if k < len(got_l) else None, exp_l[max(0, k - 3):k], r.get("class"), r.get("err", "")[-200:], r.get("panic") or ""))
        return Verdict(True, True, "ok")


def main(tier):
    t0 = time.time()
    chk = C03()
    chk.rule = ("all combinations of: A.init field order (4) x B's super.init placement (3) x B's added fields/order (4) x C.init present x B overrides m x B overrides n x C "
                "overrides m x field syntax (self.x | @x) = 1536 hierarchies; each program probes instances of A, B, C, D, B, A through one probe function (about 25 "
                "guarded probes per instance: invoke, get-then-call, bound methods, dispatch through self, super, field reads/writes, += on own and foreign instance, "
                "closures over self, undeclared names, static methods); lvalue, class-factory (depth <= 3, <= 4 thorough), self-capture and initialiser-chain (2-4 levels, 2-6 thorough) families; "
                "dispatch matrices: a chain K0 < K1 < K2 in which every class defines each of 2 (quick) / 3 (thorough) methods as absent / plain / calling super / calling the next method on self "
                "(12^3 = 1728, 48^3 = 110592 programs), every method called on an instance of every class by invoke, by get-then-call and through one shared call site per method visited K0 K1 K2 K2 K1 K0. "
                "non-trivial = every program")
    merged = explore(chk, tier, cap_s=600)
    return report.finish(chk, tier, merged, t0)
