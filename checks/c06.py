"""C06 — emitted bytecode respects the stack contract the unchecked VM relies on.

Model checking of the abstract stack machine (vlib/bcv.py): for every function of
every module compiled from the program set, all reachable abstract states
(pc, depth, function-local handler stack) over all CFG paths are explored and the
contract is checked in each (join consistency, slot/constant/capture/cache index
ranges, depth never below the frame base, peak <= max_slots, >= 1 value at Return
and no live handler, jump targets on instruction boundaries, PushHandler records
exactly the live depth). At run time (checked build) every stack access is asserted to stay inside the slots
reserved for the fiber; such an assertion failing is a violation. Binding to the implementation: the same programs are
executed with the per-instruction trace hook (H7); every recorded
(function, pc, runtime depth, live handlers) point must be a state the abstract
machine computed for that pc.
"""
import time, itertools
from vlib.engine import Check, Verdict, explore
from vlib import report, corpus, spaces, bcv, runner as R


class C06(Check):
    id = "C06"
    level = "model_checking"
    rule = ("program set = corpus (fixtures + feature programs) + control-flow skeleton space (chains of <= D nested constructs from "
            "{if, if/else(then|else), while, for, try, catch, lambda} x 8 terminal actions x {0,1,2} locals per level x 6 stack-perturbing "
            "prefixes x {0,1,3} parameters; D=2 quick, 3 thorough) + opcode-prefix space (one statement per stack-affecting construct of the language - 47 of them, "
            "covering every instruction the compiler emits inside a method - singly x {before, inside} a try x 4 raise kinds, and all ordered pairs) + boundary programs + hook-call failures (9 callback-running natives x 6 callbacks (wrong arity, raising, fine) x 0-6 locals x 4 recursion depths: the VM-raised error at every fill level of the stack) + nested hook method calls (print/str/interpolation/assertEq of lists, maps, tuples and user objects nested 0-5 deep, from the module level, a function and a launched fiber); per function: exhaustive abstract exploration; "
            "non-trivial = function with at least one branch or handler")
    assumptions = ["stack effects and operand layouts in vlib/bcv.py are written independently of the compiler's stack_effect table; opcode numbering is read from the real ByteCode enum",
                   "the property's 'exactly one value at each return' is checked as: depth >= frame base + 1 and no live handler (the number of locals in scope is not recoverable from bytecode)",
                   "box typestate of slots is not tracked"]

    def __init__(self, progs):
        self.progs = progs

    def gen(self, tier):
        for i in range(len(self.progs)):
            yield ("corpus", i)
        depth = 3 if tier == "thorough" else 2
        for s in spaces.ctl_specs(depth):
            yield ("ctl", s)
        for s in spaces.opcode_prefix_specs(True):
            yield ("opc", s)
        for name, src in boundary():
            yield ("bound", name, src)
        for spec in hookerr():
            yield spec
        for spec in strchain():
            yield spec
        for spec in tryexit():
            yield spec

    def describe(self, spec):
        if spec[0] == "corpus":
            return "corpus " + self.progs[spec[1]][0]
        if spec[0] == "ctl":
            return "ctl %s" % (spec[1],)
        if spec[0] == "opc":
            return "opcode-prefix %s: %s" % (spec[1], " ".join(spaces.OPCODE_PREFIXES[i] for i in spec[1][0])[:200])
        return "%s %s" % (spec[0] if spec[0] in ("hookerr", "strchain", "tryexit") else "bound", spec[1])

    def build(self, spec):
        base = {"dump": True, "trace": True, "step_limit": 1500000}
        if spec[0] == "corpus":
            name, files, entry = self.progs[spec[1]]
            return [dict(base, files=files, entry=entry)], None
        if spec[0] == "ctl":
            return [dict(base, src=spaces.ctl_program(*spec[1]))], None
        if spec[0] == "opc":
            return [dict(base, src=spaces.opcode_prefix_source(spec[1]))], None
        return [dict(base, src=spec[2])], None

    def judge(self, spec, ctx, rs):
        r = rs[0]
        if r.get("class") == "panic" and ("index past the end of the slice" in (r.get("panic") or "") or "before the start of the slice" in (r.get("panic") or "")) and "fiber/mod.rs" in (r.get("panic") or ""):
            # the checked build asserts that every stack access stays inside the fiber's reserved slots
            return Verdict(False, True, "stack-bounds", "a stack access left the slots reserved for the fiber: %s" % r.get("panic"))
        if r.get("class") in ("panic", "signal", "timeout") and not r.get("dump"):
            if r.get("class") == "panic" and "slots >= 0" in (r.get("panic") or ""):
                return Verdict(False, True, "compiler-assert", "compiler's own stack simulation went negative: %s" % r.get("panic"))
            return Verdict(True, False, "no-dump:" + str(r.get("class")))
        dump = r.get("dump") or ""
        if not dump:
            return Verdict(True, False, "compile_error")
        ops = r["ops"]
        modules, funs = bcv.parse_dump(dump)
        states = trans = 0
        opseen = {}
        tables = {}
        branching = 0
        for fid, fn in funs.items():
            V, s, t, table = bcv.verify(fn, ops, modules.get(fn["module"]))
            states += s
            trans += t
            tables[fid] = table
            try:
                for _pc, (nm, _a, _n) in bcv.decode(fn, ops).items():
                    opseen[nm] = opseen.get(nm, 0) + 1
            except bcv.Bad:
                pass
            if t > s:
                branching += 1
            if V and any(("unknown op" in x or "no stack effect known" in x or "bad opcode" in x) for x in V):
                # the bytecode has an instruction the abstract machine does not know: the model is out of date, not a verdict on the code
                v = Verdict(False, True, "model-outdated", "abstract machine cannot decode function %s: %s" % (fn["name"], V[0]))
                v.extra["machinery"] = True
                return v
            if V:
                return Verdict(False, True, "contract", "function %s: %s" % (fn["name"], "; ".join(V[:3])), extra={"states": states, "transitions": trans, "functions": len(funs)})
        points = 0
        for fid, pc, depth, handlers in r.get("trace") or []:
            table = tables.get(fid)
            if table is None:
                continue  # a function compiled before recording (std lib) or by another module
            points += 1
            st = table.get(pc)
            if st is None:
                return Verdict(False, True, "trace", "executed pc %d of %s is not an instruction boundary reached by the abstract machine" % (pc, funs[fid]["name"]))
            if (depth, handlers) not in st:
                return Verdict(False, True, "trace", "runtime state at pc %d of %s is (depth %d, handlers %d) but the abstract machine computed %s" % (
                    pc, funs[fid]["name"], depth, handlers, sorted(st)))
        extra = {"states": states, "transitions": trans, "functions": len(funs), "trace_points": points}
        for nm, c in opseen.items():
            extra["op:" + nm] = c
        return Verdict(True, branching > 0, "ok:" + str(r.get("class")), extra=extra)


HOOK_NATIVES = [("each", "xs.iter().each(%s);"), ("map", "xs.iter().map(%s).list();"), ("filter", "xs.iter().filter(%s).first();"), ("reduce", "xs.iter().reduce(0, %s);"),
                ("all", "xs.iter().all(%s);"), ("any", "xs.iter().any(%s);"), ("sort", "[2, 1].sort(%s);"), ("into", "xs.iter().into(%s);"), ("for_map", "for v in xs.iter().map(%s) { let q = v; }")]
HOOK_BAD = [("too_many_params", "|a, b, c| a"), ("no_params", "|| 1"), ("raises", "|a| a.nope"), ("fn_two_params", "two"), ("class_with_init_arity", "K"), ("ok", "|a| a")]


def hookerr():
    """a call made by a native through the hook fails (arity of the callback, error inside it) at every fill level of the stack:
    the slot for the VM-raised error is reserved by nothing but the raise path itself"""
    out = []
    for nname, tmpl in HOOK_NATIVES:
        for bname, cb in HOOK_BAD:
            for pad in range(0, 7):
                for depth in (0, 1, 2, 5):
                    pads = " ".join("let pad%d = %d;" % (k, k) for k in range(pad))
                    body = "let xs = [10]; %s try { %s } catch e { return 'caught ' + e.cls().name(); } return 'no error';" % (pads, tmpl % cb)
                    src = ("fn two(a, b) { return a; } class K { init(a, b) { self.a = a; } }\nfn at(d) { if d > 0 { let here = d; return at(d - 1); } %s }\nprint(at(%d));\nprint('done');\n" % (body, depth))
                    out.append(("hookerr", "%s/%s/pad%d/depth%d" % (nname, bname, pad, depth), src))
    return out


def strchain():
    """natives that call methods through the hook, nested (print -> List.str -> item.str -> ...), started from frames whose stack is still exactly
    as large as the compiler computed: the module's top level, a function, the first function of a launched fiber, an imported module"""
    out = []

    def nestv(kind, d):
        v = {"list": "[1]", "map": "{'k': 1}", "tuple": "(1, 2)", "user": "U(1)", "str": "'s'"}[kind]
        for _ in range(d):
            v = {"list": "[%s]", "map": "{'k': %s}", "tuple": "(%s, 0)", "user": "U(%s)", "str": "[%s]"}[kind] % v
        return v
    pre = "class U { init(v) { self.v = v; } str() { return 'U<' + self.v.str() + '>'; } }\n"
    for kind in ("list", "map", "tuple", "user", "str"):
        for d in (0, 1, 2, 3, 5):
            v = nestv(kind, d)
            for use in ("print(%s);", "let s = %s.str(); print(s.len() > 0);", "print('i${%s}j');", "print(%s, %s);", "assertEq(%s.str(), %s.str()); print('eq');", "let m = %s.str; print(m().len() > 0);"):
                stmt = use.replace("%s", v)
                out.append(("strchain", "module/%s/%d/%s" % (kind, d, use[:12]), pre + stmt + "\nprint('done');\n"))
                out.append(("strchain", "fn/%s/%d/%s" % (kind, d, use[:12]), pre + "fn f() { %s }\nf();\nprint('done');\n" % stmt))
                out.append(("strchain", "fiber/%s/%d/%s" % (kind, d, use[:12]), pre + "let c = chan(1);\nfn w(c) { %s c <- 1; }\nlaunch w(c);\nprint(<- c);\n" % stmt))
    return out


def tryexit():
    """a try inside a loop body that declared locals, whose block declares locals of its own and ends by leaving (break / continue / return /
    raise) or not; the catch clause is shallow, deeper than the try block, or holds a try of its own that catches: the depth live at the
    catch label is the one recorded where the try begins, whatever the last instruction of the block left behind. Run directly and in a
    launched fiber (whose stack has exactly the slots the compiler reserved)."""
    out = []
    exits = {"plain": "acc = acc + 1;", "break": "break;", "continue": "continue;", "return": "return acc + 100;", "raise": "raise Error('y');"}
    catches = {
        "simple": "acc = acc + 10;",
        "nested_try": "try { raise Error('n'); } catch e2: Error { acc = acc + 20 + e.message.len() + e2.message.len()%s; }",
        "deep_expr": "acc = acc + [[1, 2, [3, 4, [5, 6, [7, 8, [9]]]]]].len() + pick(1, 2, 3, pick(4, 5, 6, pick(7, 8, 9, 10)))%s;",
        "nested_try_deep": "try { raise Error('n'); } catch e2: Error { let c1 = 1; let c2 = [c1, [c1, [c1]]]; acc = acc + pick(c1, c2.len(), e.message.len(), pick(1, 2, 3, e2.message.len()))%s; }",
    }
    wraps = {"": ("", ""), "/in_try": ("try { ", " } catch o1: Error { acc = acc + 7; }"),
             "/in_two_tries": ("try { let w1 = 1; try { ", " } catch o1: Error { acc = acc + 7; } } catch o2: Error { acc = acc + 8; }")}
    for loop, nl, nt, (ex, extext), (cname, ctext), (wname, (wpre, wpost)) in itertools.product(("while", "for"), (0, 1, 2, 3), (0, 1, 2), exits.items(), catches.items(), wraps.items()):
                        if wname and (nl in (1, 3) or nt == 2 or cname.startswith("deep") or cname.endswith("deep")):
                            continue   # the try wrapped in one / two outer tries inside the loop body: a reduced product
                        ll = "".join("let a%d = %d; " % (k, k + 1) for k in range(nl))
                        tl = "".join("let t%d = %d; " % (k, k + 5) for k in range(nt))
                        uses = "".join(" + a%d" % k for k in range(nl))
                        cbody = ctext % uses if "%s" in ctext else ctext
                        head = "let i = 0; while i < 2 { i = i + 1; " if loop == "while" else "for i in 2.times() { "
                        fn = ("fn pick(a, b, c, d) { return a + d; }\nfn f(fail) { let acc = 0; %s%s%stry { %sif fail { raise Error('first'); } %s } catch e: Error { %s }%s acc = acc + 1000%s; } return acc; }\n"
                              % (head, ll, wpre, tl, extext, cbody, wpost, uses))
                        name = "%s/locals%d/trylocals%d/%s/%s%s" % (loop, nl, nt, ex, cname, wname)
                        out.append(("tryexit", "direct/" + name, fn + "try { print(f(false)); } catch e { print('u', e.message); }\ntry { print(f(true)); } catch e { print('u', e.message); }\nprint('done');\n"))
                        out.append(("tryexit", "fiber/" + name, fn + "let c = chan(2);\nfn w(c, fail) { let r = nil; try { r = f(fail); } catch e { r = e.message; } c <- r; }\nlaunch w(c, false);\nlaunch w(c, true);\nprint(<- c);\nprint(<- c);\n"
                                    "fn g(c) { let acc = 0; %s%s%stry { %sif acc == 0 { raise Error('first'); } %s } catch e: Error { %s }%s acc = acc + 1000%s; } c <- acc; }\nlaunch g(c);\nprint(<- c);\n"
                                    % (head, ll, wpre, tl, extext if ex != "return" else "c <- 7; return;", cbody, wpost, uses)))
    return out


def boundary():
    out = []
    for n in (250, 253, 254):
        out.append(("locals%d" % n, "fn f() { " + "".join("let v%d = %d; " % (i, i) for i in range(n)) + "if v0 == 0 { return v1; } return v0; } print(f());"))
        out.append(("blockdrops%d" % n, "fn f() { if true { " + "".join("let v%d = %d; " % (i, i) for i in range(n)) + "} try { raise Error('x'); } catch e { return 2; } return 1; } print(f());"))
    for n in (255, 256, 257, 300):
        out.append(("consts%d" % n, "fn f() { let l = [" + ",".join("%d.5" % i for i in range(n)) + "]; return l.len() > 0 ? l[0] : nil; } print(f());"))
        out.append(("args%d" % n, "fn f() { return [" + ",".join("1" for i in range(n)) + "].len(); } print(f());") if n <= 300 else None)
    for n in (13000, 13100, 21800, 21850):
        out.append(("jump%d" % n, "let x = 1; if x == 2 { " + "x = 1;" * n + " } print(x);"))
        out.append(("loop%d" % n, "let x = 0; while x < 1 { x = x + 1; if x == 5 { " + "x = 1;" * n + " } } print(x);"))
    return [o for o in out if o]


def main(tier):
    t0 = time.time()
    progs = corpus.rich() + corpus.fixtures()
    chk = C06(progs)
    merged = explore(chk, tier, cap_s=(1500 if tier == "thorough" else 240))
    ex = merged["extra"]
    cov = {"states": int(ex.get("states", 0)), "transitions": int(ex.get("transitions", 0)),
           "traces_validated_against_impl": int(ex.get("trace_points", 0)), "functions_verified": int(ex.get("functions", 0))}
    seen = {k[3:]: int(v) for k, v in ex.items() if k.startswith("op:")}
    for k in list(merged["extra"]):
        if k.startswith("op:"):
            del merged["extra"][k]
    import subprocess, json as _json
    try:
        allops = _json.loads(subprocess.run([R.BIN["checked"], "ops"], capture_output=True, text=True).stdout)
    except Exception:
        allops = []
    cov["opcodes_verified"] = len(seen)
    cov["opcodes_never_emitted_by_the_program_set"] = sorted(set(allops) - set(seen))
    cov["opcode_instances"] = seen
    return report.finish(chk, tier, merged, t0, coverage_extra=cov)
