"""C09 — strings compare and hash by content however and whenever they were created.

Ordered pairs (p, q) over the producer alphabet {literal, concatenation, interpolation,
slice, split element, characters folded from iteration, downCase, trim/trimStart/trimEnd,
str, number formatting/interpolation/parse, constant exported by another module, key read
back from a map, closure parameter, error message, iterator first/last, regexp capture}
plus the special contents produced by str() of booleans, nil, lists, numbers and by class
names, instantiated
so that the contents are equal and so that they differ in one character; optional prefix
"create an equal string in a call, drop it, force a full collection"; observations
== != <= >= , map lookups in both directions, list.has/index, tuple.has.
Every program runs under the schedules never | every x {nursery, full} | every single
allocation point x {nursery, full}, in the poisoning-quarantine allocator and in the
eager-reuse allocator; each run ends with a forced full collection after which the intern
table must equal the set of live string blocks (hook H3).
Oracle: content equality (Python strings) and schedule invariance.
"""
import itertools, time
from vlib.engine import Check, Verdict, explore, map_cases
from vlib import report, runner as R

TARGETS = [("foo", "fop"), ("125", "126"), ("héé", "héè"), ("a", "b"), ("é", "è"), ("7", "8"), ("", "a")]
# producers whose meaning for an empty content would need a model of its own (separators around nothing): left out for ""
NOT_FOR_EMPTY = ("split", "split_last", "regexp", "tuple_iter", "mapkey")


def producers(t):
    q = "'" + t + "'"
    up = t.upper()
    out = {
        "literal": q,
        "concat": "'%s' + '%s'" % (t[:1], t[1:]),
        "interp": "'%s${'%s'}'" % (t[:2], t[2:]),
        "slice": "'x%sx'.slice(1, %d)" % (t, 1 + len(t)),
        "split": "'a %s b'.split(' ').list()[1]" % t,
        "chars": "'%s'.iter().reduce('', |a, c| a + c)" % t,
        "downCase": "'%s'.downCase()" % up,
        "trim": "'  %s '.trim()" % t,
        "imported": "K%s" % ("A" if t in [a for a, _ in TARGETS] else "B"),
        "mapkey": "{'%s': 1}.iter().first()[0]" % t,
        "param": "(|s| s + '')('%s')" % t,
    }
    out["trimStart"] = "'  %s'.trimStart()" % t
    out["trimEnd"] = "'%s \t'.trimEnd()" % t
    out["str"] = "'%s'.str()" % t
    out["errmsg"] = "Error('%s').message" % t
    out["first"] = "['%s', 'z'].iter().first()" % t
    out["split_last"] = "'q,%s'.split(',').last()" % t
    out["regexp"] = "RegExp('x(.+)').captures('x%s')[1]" % t
    out["tuple_iter"] = "('z', '%s').iter().skip(1).first()" % t
    if t == t.upper():
        out["upCase"] = "'%s'.upCase()" % t.lower()   # a result equal to the receiver
    if len(t) == 1 and t.isascii():
        out["index"] = "'x%sx'[1]" % t
        if t.isdigit():
            out["list_str"] = "[%s].str().slice(1, -1)" % t
    if len(t) <= 1:
        out["concat_empty"] = "'' + '%s' + ''" % t
        out["slice_all"] = "'%s'.slice()" % t
    if t == "":
        for k in NOT_FOR_EMPTY:
            out.pop(k, None)
        # nothing between, before and behind separators
        out["split_mid"] = "'x,,y'.split(',').list()[1]"
        out["split_lead"] = "',x'.split(',').first()"
        out["split_trail"] = "'x,'.split(',').last()"
    if t == "a":
        out["split_mid"] = "'x,a,y'.split(',').list()[1]"
        out["split_lead"] = "'a,x'.split(',').first()"
        out["split_trail"] = "'x,a'.split(',').last()"
    if t.isdigit():
        out["numstr"] = "%s.str()" % t
        out["numinterp"] = "'${%s}'" % t
        out["parse_str"] = "Number.parse('%s.0').str()" % t
    return out


def program(pname, qname, t, t2, equal, prefix):
    P = producers(t)
    Q = producers(t if equal else t2)
    src = "import self.consts:{KA, KB};\nimport std.regexp:{RegExp};\n"
    if prefix:
        src += "fn tmp() { let t = %s; return t.len(); }\nprint(tmp());\nprint('@@gc full');\nlet pad = [0];\n" % Q[qname].replace("KA", "'%s'" % t).replace("KB", "'%s'" % t2)
    src += "let p = %s;\nlet q = %s;\n" % (P[pname], Q[qname] if equal else Q[qname].replace("KA", "KB"))
    src += ("print(p == q, p != q, p <= q, p >= q, q == p, p < q, p > q);\n"
            "let m = {}; m[p] = 'P'; print(m.has(q), m.get(q), m.len()); m[q] = 'Q'; print(m.len(), m[p], m[q]);\n"
            "print([p].has(q), [p].index(q), (p, 1).has(q), (q, p).index(p), {q: 1}.has(p));\n"
            "let again = %s; print(again == p, m.get(again), p.len(), q.len());\nprint(p, q);\n" % P[pname])
    files = {"/v/main.lay": src, "/v/consts.lay": "export let KA = '%s';\nexport let KB = '%s';\n" % (t, t2)}
    return files


def expected(t, t2, equal):
    p, q = t, (t if equal else t2)
    b = lambda x: "true" if x else "false"
    pb, qb = p.encode(), q.encode()
    l1 = " ".join([b(p == q), b(p != q), b(pb <= qb), b(pb >= qb), b(q == p), b(pb < qb), b(pb > qb)])
    l2 = "%s %s 1" % (b(p == q), "P" if p == q else "nil")
    l3 = ("1 Q Q" if p == q else "2 P Q")
    l4 = " ".join([b(p == q), "0" if p == q else "nil", b(p == q), "1" if p != q else "0", b(p == q)])
    l5 = "true %s %d %d" % ("Q" if p == q else "P", len(p), len(q))
    return "\n".join([l1, l2, l3, l4, l5, p + " " + q]) + "\n"


class C09(Check):
    id = "C09"
    level = "fault_enumeration"
    rule = ""
    assumptions = ["contents compared by Python string equality / UTF-8 byte order", "collections start only at allocation points; deviation bound: 1 forced collection (+ every/never schedules)",
                   "field, method, class and export names are reached through code compiled after the collections (a module imported later); there is no reflection by run-time strings"]

    def __init__(self, progs, base):
        self.progs = progs
        self.base = base

    def gen(self, tier):
        th = tier == "thorough"
        for i, pr in enumerate(self.progs):
            n = self.base[i]
            for alloc in ("poison", "reuse_lifo"):
                yield (i, "never", 0, None, alloc)
                for kind in (1, 2, 0):
                    yield (i, "every", kind, None, alloc)
            if n is None or pr.get("nopoints"):
                continue
            step = 1 if (th or pr["light"]) else 3
            if not th and pr.get("t") in ("é", "7"):
                step = 2   # quick: every second allocation point for two of the four short content families (thorough: every point)
            for p in range(0, n, step):
                for kind in (1, 2):
                    yield (i, "at", kind, p, "poison")
                    if th:
                        yield (i, "at", kind, p, "reuse_lifo")

    def describe(self, spec):
        i, mode, kind, p, alloc = spec
        pr = self.progs[i]
        return "p=%s q=%s target=%s equal=%s prefix=%s | schedule=%s kind=%s point=%s alloc=%s" % (pr["p"], pr["q"], pr["t"], pr["equal"], pr["prefix"], mode, kind, p, alloc)

    def build(self, spec):
        i, mode, kind, p, alloc = spec
        pr = self.progs[i]
        gc = {"mode": mode, "kind": kind}
        if mode == "at":
            gc["points"] = [[p, kind]]
        return [{"files": pr["files"], "entry": "/v/main.lay", "gc": gc, "alloc": alloc, "final_collect": True, "stats": True, "step_limit": 3000000 if pr.get("nopoints") else 500000}], None

    def judge(self, spec, ctx, rs):
        r = rs[0]
        pr = self.progs[spec[0]]
        want = ("3\n" if pr["prefix"] else "") + pr["expected"]
        nontriv = r.get("collections", 0) > 1 or spec[1] == "never"
        if r.get("class") != "ok" or r.get("out") != want:
            return Verdict(False, True, "content", "expected %r; got class=%s out=%r err=%r %s" % (want, r.get("class"), r.get("out"), r.get("err", "")[-200:], r.get("panic") or r.get("signal") or ""))
        st = r.get("stats") or {}
        if not st.get("intern_equals_strings") or st.get("intern_keys_inside_block") != st.get("intern"):
            return Verdict(False, True, "intern", "after a full collection the intern table (%s entries, %s keys inside their block) differs from the live string blocks (%s)" % (
                st.get("intern"), st.get("intern_keys_inside_block"), st.get("strings")))
        return Verdict(True, nontriv, "ok:%s" % pr["equal"])


SPECIAL = [("true", ["'true'", "true.str()", "'${true}'", "'tr' + 'ue'", "(1 == 1).str()"]), ("nil", ["'nil'", "nil.str()", "'${nil}'", "[].pop().str()"]),
           ("[1]", ["'[1]'", "[1].str()", "'${[1]}'", "'[' + 1.str() + ']'"]), ("Foo", ["'Foo'", "Foo.name()", "Foo().cls().name()", "'F' + 'oo'"]),
           ("Error", ["'Error'", "Error('x').cls().name()", "Error.name()"]), ("-0", ["'-0'", "(0 * -1).str()", "'${0 * -1}'"]), ("inf", ["'inf'", "(1 / 0).str()"]), ("1.5", ["'1.5'", "1.5.str()", "(3 / 2).str()", "'${1.5}'"])]


def special_programs():
    out = []
    for content, exprs in SPECIAL:
        for pe, qe in itertools.product(exprs, repeat=2):
            src = ("import self.consts:{KA, KB};\nclass Foo {}\nlet p = %s;\nlet q = %s;\n"
                   "print(p == q, p != q, p <= q, p >= q, q == p, p < q, p > q);\n"
                   "let m = {}; m[p] = 'P'; print(m.has(q), m.get(q), m.len()); m[q] = 'Q'; print(m.len(), m[p], m[q]);\n"
                   "print([p].has(q), [p].index(q), (p, 1).has(q), (q, p).index(p), {q: 1}.has(p));\n"
                   "let again = %s; print(again == p, m.get(again), p.len(), q.len());\nprint(p, q);\n" % (pe, qe, pe))
            out.append({"p": pe, "q": qe, "t": content, "equal": True, "prefix": False, "light": True,
                        "files": {"/v/main.lay": src, "/v/consts.lay": "export let KA = 'a';\nexport let KB = 'b';\n"}, "expected": expected(content, content, True)})
    return out


def name_programs():
    """names are strings too: field, method, static method, class, function and export names live in the same intern table. A module
    declares them (its methods reach their fields by slot, so no constant keeps the name), the declaring script function
    is dead once the import is over, collections run, and code compiled afterwards (a second module) must find every name
    through an equal string created later."""
    shapes = ("export class Rect { init(w, h) { self.width = w; self.height = h; } area() { return self.width * self.height; } grow() { self.width = self.width + 1; return self; } "
              "static unit() { return Rect(1, 1); } }\nexport fn make() { return Rect(3, 4); }\nexport let label = 'rect';\nlet hidden = 'h';\n")
    uses = {
        "field_get": ("export fn show(r) { return [r.width, r.height]; }", "[3, 4]"),
        "field_set": ("export fn show(r) { r.width = 7; r.height += 1; return [r.width, r.height, r.area()]; }", "[7, 5, 35]"),
        "method": ("export fn show(r) { return [r.area(), r.grow().area()]; }", "[12, 16]"),
        "bound_method": ("export fn show(r) { let a = r.area; let g = r.grow; g(); return a(); }", "16"),
        "static": ("export fn show(r) { return r.cls().unit().area(); }", "1"),
        "class_name": ("export fn show(r) { return [r.cls().name(), r.cls().name() == 'Re' + 'ct', {'Rect': 1}[r.cls().name()]]; }", "['Rect', true, 1]"),
        "map_of_names": ("export fn show(r) { let m = {'width': r.width, 'height': r.height}; return [m['wid' + 'th'], m.has('height'), 'width'.len()]; }", "[3, true, 5]"),
        "subclass_late": ("import self.shapes:{Rect};\nclass Sq : Rect { init(s) { super.init(s, s); } side() { return self.width; } }\nexport fn show(r) { let q = Sq(5); return [q.side(), q.area(), q.height, r.width]; }", "[5, 25, 5, 3]"),
        "export_symbol": ("import self.shapes:{label, make};\nexport fn show(r) { return [label, make().height, label == 're' + 'ct']; }", "['rect', 4, true]"),
        "missing": ("export fn show(r) { try { return r.widht; } catch e { return e.cls().name(); } }", "PropertyError"),
    }
    out = []
    for gcs in ("", "print('@@gc full');\nlet pad = [0];\n", "print('@@gc nursery');\nlet pad = [0];\nprint('@@gc full');\nlet pad2 = [1];\n"):
        for name, (report, want) in uses.items():
            main = ("import self.shapes;\nlet r = shapes.make();\nprint(r.area());\n%slet junk = []; for i in 40.times() { junk.push('s' + i.str()); }\n"
                    "import self.report;\nprint(report.show(r));\nprint(report.show(shapes.make()));\n" % gcs)
            out.append({"p": "name:" + name, "q": "gc_markers=%d" % gcs.count("@@gc"), "t": "names", "equal": True, "prefix": False, "light": True,
                        "files": {"/v/main.lay": main, "/v/shapes.lay": shapes, "/v/report.lay": report + "\n"},
                        "expected": "12\n%s\n%s\n" % (want if name not in ("field_set", "method", "bound_method") else want, want)})
    return out


LONG_SIZES = [255, 256, 257, 1023, 1024, 1025, 1026, 4096, 65535, 65536, 65537]
LONG_PRODUCERS = {
    "double_slice": "A(%d)",
    "halves": "A(%d - (%d / 2).floor()) + A((%d / 2).floor())",
    "interp": "'${A(%d - 1)}x'",
    "split": "(A(%d) + ',' + 'z').split(',').first()",
    "inner_slice": "('q' + A(%d) + 'q').slice(1, %d + 1)",
}


def long_programs():
    """contents whose length crosses the sizes at which an implementation may change strategy (255/256, 1024, 65535/65536)"""
    out = []
    pre = "fn A(n) { if n == 0 { return ''; } let s = 'x'; while s.len() < n { s = s + s; } return s.slice(0, n); }\n"
    for n in LONG_SIZES:
        for pn, pe in LONG_PRODUCERS.items():
            for qn, qe in LONG_PRODUCERS.items():
                for equal in (True, False):
                    P = pe.replace("%d", str(n))
                    Q = qe.replace("%d", str(n))
                    if not equal:
                        Q = "(%s).slice(0, %d) + 'y'" % (Q, n - 1)
                    src = (pre + "let p = %s;\nlet q = %s;\n" % (P, Q) +
                           "print(p == q, p != q, p <= q, p >= q, q == p, p < q, p > q);\n"
                           "let m = {}; m[p] = 'P'; print(m.has(q), m.get(q), m.len()); m[q] = 'Q'; print(m.len(), m[p], m[q]);\n"
                           "print([p].has(q), [p].index(q), (p, 1).has(q), (q, p).index(p), {q: 1}.has(p));\n"
                           "let again = %s; print(again == p, m.get(again), p.len(), q.len());\nprint(p.slice(0, 3), q.slice(%d));\n" % (P, n - 3))
                    t, t2 = "x" * n, "x" * (n - 1) + "y"
                    exp = expected(t, t2, equal).rsplit("\n", 2)[0] + "\nxxx %s\n" % ((t if equal else t2)[n - 3:])
                    out.append({"p": pn, "q": qn, "t": "x*%d" % n, "equal": equal, "prefix": False, "light": True, "nopoints": True,
                                "files": {"/v/main.lay": src, "/v/consts.lay": "export let KA = 'a';\nexport let KB = 'b';\n"}, "expected": exp})
    return out


def build_programs(tier):
    progs = special_programs() + name_programs() + long_programs()
    for t, t2 in TARGETS:
        names = [n for n in producers(t) if n in producers(t2)]
        light = (t != "foo")
        for pn, qn in itertools.product(names, repeat=2):
            if light and not (pn in ("literal", "concat", "numstr", "chars", "mapkey", "numinterp", "parse_str", "regexp", "upCase", "index", "list_str", "concat_empty", "slice_all", "split_mid", "split_lead", "split_trail")
                              or qn in ("numstr", "slice", "errmsg", "upCase", "index", "concat_empty", "slice_all", "split_mid", "split_trail")):
                continue
            for equal in (True, False):
                for prefix in (False, True):
                    if prefix and light:
                        continue
                    progs.append({"p": pn, "q": qn, "t": t, "equal": equal, "prefix": prefix, "light": light,
                                  "files": program(pn, qn, t, t2, equal, prefix), "expected": expected(t, t2, equal)})
    return progs


def main(tier):
    t0 = time.time()
    progs = build_programs(tier)
    res = map_cases([{"files": p["files"], "entry": "/v/main.lay", "gc": {"mode": "never"}, "step_limit": 500000} for p in progs])
    base = [r.get("allocs") if r and r.get("class") == "ok" else None for r in res]
    chk = C09(progs, base)
    chk.rule = ("%d programs = ordered producer pairs over 7 content families (three characters, one character, empty; ASCII, digits, two-byte characters) x {equal, one character different} x {plain, equal string created-dropped-collected first}; "
                "schedules: never, every x {nursery, full, natural} in two allocator modes, every (quick: every 3rd for the main family, every 2nd for two of the short families) allocation point x {nursery, full}; "
                "each run ends with a full collection + intern-table audit. non-trivial = run with at least one forced collection besides the final one" % len(progs))
    merged = explore(chk, tier, cap_s=(1500 if tier == "thorough" else 200))
    return report.finish(chk, tier, merged, t0, coverage_extra={"programs": len(progs), "allocation_points_total": sum(b or 0 for b in base)})
