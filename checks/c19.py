"""C19 — an interactive session behaves like the same declarations in one file.

All sequences of prompt entries up to a length bound over an alphabet of
definitions, updates, call/property/invoke sites, a line that fails to compile,
lines that raise, declarations whose initialiser raises and a failing import (with define-before-use respected) are fed
line by line to Vm::repl (scripted stdin) and, as the concatenation of the entries
the model says take effect, to Vm::run.
Oracle: same stdout (prompts stripped); the session survives bad lines.
"""
import itertools, time
from vlib.engine import Check, Verdict, explore
from vlib import report, runner as R

# name: (repl line, file text, requires, defines)
E = {
    "defx": ("let x = 1;", "let x = 1;", [], ["x"]),
    "updx": ("x = x + 1; print('x', x);", "x = x + 1; print('x', x);", ["x"], []),
    "getx": ("fn getx() { return x; }", "fn getx() { return x; }", ["x"], ["getx"]),
    "callgetx": ("print('getx', getx());", "print('getx', getx());", ["getx"], []),
    "clsA": ("class A { init() { self.v = 1; } foo() { return self.bar() + 1; } bar() { return 41; } }",
             "class A { init() { self.v = 1; } foo() { return self.bar() + 1; } bar() { return 41; } }", [], ["A"]),
    "clsB": ("class B { init() { self.w = 2; self.v = 3; } foo() { return 'Bfoo'; } }", "class B { init() { self.w = 2; self.v = 3; } foo() { return 'Bfoo'; } }", [], ["B"]),
    "callfoo": ("fn callfoo(a) { return a.foo(); }", "fn callfoo(a) { return a.foo(); }", [], ["callfoo"]),
    "prop": ("fn prop(a) { a.v = a.v + 6; return a.v; }", "fn prop(a) { a.v = a.v + 6; return a.v; }", [], ["prop"]),
    "usefooA": ("print('foo', callfoo(A()));", "print('foo', callfoo(A()));", ["callfoo", "A"], []),
    "usefooB": ("print('foo', callfoo(B()));", "print('foo', callfoo(B()));", ["callfoo", "B"], []),
    "usepropA": ("print('prop', prop(A()));", "print('prop', prop(A()));", ["prop", "A"], []),
    "usepropB": ("print('prop', prop(B()));", "print('prop', prop(B()));", ["prop", "B"], []),
    "inlineA": ("print('inl', A().foo(), A().v);", "print('inl', A().foo(), A().v);", ["A"], []),
    "bad": ("let = ;", "", [], []),
    "bad2": ("print('never' ;", "", [], []),
    "raise": ("print('r'); raise Error('boom');", "try { print('r'); raise Error('boom'); } catch e {}", [], []),
    "rtfail": ("print('q'); nil.nope();", "try { print('q'); nil.nope(); } catch e {}", [], []),
    "closure": ("let inc = || { x = x + 10; return x; };", "let inc = || { x = x + 10; return x; };", ["x"], ["inc"]),
    "callinc": ("print('inc', inc());", "print('inc', inc());", ["inc"], []),
    "list": ("let l = [1, 2];", "let l = [1, 2];", [], ["l"]),
    "pushl": ("l.push(l.len()); print('l', l, l.iter().map(|v| v * 2).list());", "l.push(l.len()); print('l', l, l.iter().map(|v| v * 2).list());", ["l"], []),
    "interp": ("print('s${x}e');", "print('s${x}e');", ["x"], []),
    # declarations whose initialiser raises: the line is an error, the name never gets a value, everything else stays usable
    "faildecl": ("let b = nil.nope();", "try { nil.nope(); } catch e {}", [], ["b"]),
    "faildecl_g": ("let d = print(nil.nope());", "try { print(nil.nope()); } catch e {}", [], ["d"]),
    "failimport": ("import std.nope;", "", [], ["nope"]),
    "impmath": ("import std.math;", "import std.math;", [], ["math"]),
    "usemath": ("print('abs', math.abs(-2));", "print('abs', math.abs(-2));", ["math"], []),
    # user modules: good ones (with call/property sites of their own), one that fails to compile, one that raises while loading
    "impgood": ("import self.good;", "import self.good;", [], ["good"]),
    "usegood": ("print('g', good.g(good.p));", "print('g', good.g(good.p));", ["good"], []),
    "impgood2": ("import self.good2;", "import self.good2;", [], ["good2"]),
    "usegood2": ("print('h', good2.h(good2.q), good2.h(good2.q));", "print('h', good2.h(good2.q), good2.h(good2.q));", ["good2"], []),
    "impbad": ("import self.bad;", "", [], ["bad"]),
    "impbad2": ("import self.bad2;", "", [], ["bad2"]),
    "imprt": ("import self.rt;", "print('rt loading');", [], ["rt"]),
    # fibers and channels that live across prompt lines: launched on one line, still queued when the line ends, completed on a later one
    "defch": ("let ch = chan(3);", "let ch = chan(3);", [], ["ch"]),
    "defprod": ("fn producer(n) { ch <- n; ch <- n + 1; ch <- n + 2; }", "fn producer(n) { ch <- n; ch <- n + 1; ch <- n + 2; }", ["ch"], ["producer"]),
    "launchprod": ("launch producer(10);", "launch producer(10);", ["producer"], ["launched"]),
    "recv1": ("print('got', <- ch);", "print('got', <- ch);", ["launched"], ["r1"]),
    "recv2": ("print('got', <- ch);", "print('got', <- ch);", ["r1"], ["r2"]),
    "recv3": ("print('got', <- ch);", "print('got', <- ch);", ["r2"], ["r3"]),
    "sendself": ("ch <- 99; print('sent');", "ch <- 99; print('sent');", ["r1"], ["s1"]),
    "recvself": ("print('self', <- ch);", "print('self', <- ch);", ["s1", "r3"], ["rs"]),
    "defc1": ("let c1 = chan(1);", "let c1 = chan(1);", [], ["c1"]),
    "lr": ("fn w1() { c1 <- 1; } launch w1(); print('lr', <- c1);", "fn w1() { c1 <- 1; } launch w1(); print('lr', <- c1);", ["c1"], ["lr"]),
    "overfill": ("c1 <- 5; c1 <- 6; print('never');", "c1 <- 5;", ["lr"], ["of"]),
    "blockline": ("let full = chan(1); full <- 1; full <- 2;", "", [], ["full"]),
    # functions compiled on a later line whose nested lambdas (one and two levels down, in functions and methods) mention names of earlier lines
    "deflam": ("fn lamfn(l) { return l.iter().map(|v| v * x).list(); }", "fn lamfn(l) { return l.iter().map(|v| v * x).list(); }", ["x"], ["lamfn"]),
    "uselam": ("print('lam', lamfn([1, 2]));", "print('lam', lamfn([1, 2]));", ["lamfn"], []),
    "defmeth": ("class LM { m() { return (|| x + 1)(); } n() { return [1].iter().map(|v| print).list().len(); } }", "class LM { m() { return (|| x + 1)(); } n() { return [1].iter().map(|v| print).list().len(); } }", ["x"], ["LM"]),
    "usemeth": ("print('lm', LM().m(), LM().n());", "print('lm', LM().m(), LM().n());", ["LM"], []),
    "deflam2": ("fn lam2() { return || || x + 2; }", "fn lam2() { return || || x + 2; }", ["x"], ["lam2"]),
    "uselam2": ("print('l2', lam2()()());", "print('l2', lam2()()());", ["lam2"], []),
    "deflamw": ("fn lamw() { let f = || { x = x + 5; return x; }; return f(); }", "fn lamw() { let f = || { x = x + 5; return x; }; return f(); }", ["x"], ["lamw"]),
    "uselamw": ("print('lw', lamw(), x);", "print('lw', lamw(), x);", ["lamw"], []),
    "deflamp": ("fn lamp() { [1, 2].iter().each(|v| print('each', v)); }", "fn lamp() { [1, 2].iter().each(|v| print('each', v)); }", ["x"], ["lamp"]),
    "uselamp": ("lamp();", "lamp();", ["lamp"], []),
    "deflamcls": ("fn mk() { return || A().foo(); }", "fn mk() { return || A().foo(); }", ["A"], ["mk"]),
    "uselamcls": ("print('mk', mk()());", "print('mk', mk()());", ["mk"], []),
    "loop": ("for i in 2.times() { print('i', i); }", "for i in 2.times() { print('i', i); }", [], []),
}
QUICK = ["defx", "updx", "getx", "callgetx", "clsA", "callfoo", "prop", "usefooA", "usepropA", "bad", "raise", "rtfail", "clsB", "usefooB", "faildecl", "faildecl_g", "failimport"]
FIBERS = ["defch", "defprod", "launchprod", "recv1", "recv2", "recv3", "sendself", "recvself", "blockline", "defc1", "lr", "overfill", "rtfail", "raise", "bad", "faildecl", "defx", "updx"]
FIBER_ONLY = ["defch", "defprod", "launchprod", "recv1", "recv2", "recv3", "sendself", "recvself", "blockline", "defc1", "lr", "overfill"]
IMPORT_ONLY = ["impgood", "usegood", "impgood2", "usegood2", "impbad", "impbad2", "imprt"]
NESTED_ONLY = ["deflam", "uselam", "defmeth", "usemeth", "deflam2", "uselam2", "deflamw", "uselamw", "deflamp", "uselamp", "deflamcls", "uselamcls"]
NESTED = ["defx", "updx"] + NESTED_ONLY + ["clsA", "bad", "rtfail"]
ALL = [k for k in E if k not in IMPORT_ONLY and k not in FIBER_ONLY and k not in NESTED_ONLY]
IMPORTS = ["impgood", "usegood", "impgood2", "usegood2", "impbad", "impbad2", "imprt", "failimport", "clsA", "callfoo", "usefooA", "bad", "faildecl"]
FILES = {
    "/v/good.lay": "export fn g(a) { return a.v; } class P { init() { self.v = 7; } } export let p = P(); print('good loaded', g(p));",
    "/v/good2.lay": "export fn h(a) { return a.w() + a.x; } class Q { init() { self.x = 9; } w() { return 1; } } export let q = Q(); print('good2 loaded', h(q));",
    "/v/bad.lay": "print('bad loading'); let = ;",
    "/v/bad2.lay": "class { }",
    "/v/rt.lay": "print('rt loading'); export let z = 1; nil.nope(); print('not reached');",
}


def valid(seq):
    defined = set()
    for n in seq:
        line, filetext, req, defs = E[n]
        if any(r not in defined for r in req):
            return False
        if any(d in defined for d in defs):
            return False  # redefinitions are not modelled
        defined |= set(defs)
    return True


def sequences(alpha, L):
    """all sequences of length 1..L over alpha that respect define-before-use (depth first, extending valid prefixes only; shorter first within a prefix)"""
    out_by_len = {}

    def rec(seq, defined):
        if seq:
            yield tuple(seq)
        if len(seq) == L:
            return
        for n in alpha:
            line, filetext, req, defs = E[n]
            if any(r not in defined for r in req) or any(d in defined for d in defs):
                continue
            seq.append(n)
            yield from rec(seq, defined | set(defs))
            seq.pop()
    return rec([], frozenset())


# ---- long sessions: the module of the prompt accumulates symbols line after line; sessions whose number of module-level symbols
# crosses 255 / 256 (one-byte slot numbers, tables that are re-registered for every new line) and goes well beyond
LONG_KS = [100, 240, 248, 250, 251, 252, 253, 254, 255, 256, 257, 258, 260, 300, 520]
LONG_KINDS = ["let", "fn", "class", "mixed"]


def long_session(kind, k, failing):
    """(repl lines, file text): k declarations of one kind behind a class, an instance and a function, used before, in between and after"""
    decl = {"let": lambda i: "let v%d = %d;" % (i, i), "fn": lambda i: "fn v%d() { return %d; }" % (i, i), "class": lambda i: "class V%d { get() { return %d; } }" % (i, i)}
    use = {"let": lambda i: "v%d" % i, "fn": lambda i: "v%d()" % i, "class": lambda i: "V%d().get()" % i}
    kind_of = lambda i: kind if kind != "mixed" else ("let", "fn", "class")[i % 3]
    lines = [("class C { init() { self.n = 0; } tick() { self.n = self.n + 1; return self.n; } }",) * 2, ("let o = C();",) * 2,
             ("fn tick() { return o.tick(); }",) * 2, ("print(tick());",) * 2]
    for i in range(k):
        d = decl[kind_of(i)](i)
        lines.append((d, d))
        if i % 40 == 39:
            p = "print(tick(), %s);" % use[kind_of(i)](i)
            lines.append((p, p))
            if failing:
                lines.append(("print(v%d + );" % i, ""))                 # does not compile
                lines.append(("print(o.nothing_%d());" % i, ""))       # raises
    last = k - 1
    tail = ["print(tick());", "print(%s + %s);" % (use[kind_of(0)](0), use[kind_of(last)](last)),
            "fn late() { return %s + %s; }" % (use[kind_of(last)](last), use[kind_of(1)](1)), "print(late());", "let after = 5;",
            "print(after + %s);" % use[kind_of(0)](0), "class Late { m() { return %s; } }" % use[kind_of(last)](last), "print(Late().m(), tick());"]
    lines += [(t, t) for t in tail]
    return [a for a, _ in lines], "\n".join(b for _, b in lines if b) + "\n"


class C19(Check):
    id = "C19"
    level = "exploration"
    rule = ("all sequences of <= L prompt entries (L=5 quick over a 17 entry alphabet; thorough: L=5 over 28 entries plus L=6 over the 17) plus L=6 (7 thorough) over an 18 entry alphabet with a channel, a producer function, its launch, receives on later lines, a send, a line that blocks for good, raising and failing lines (sessions that launch or block); plus L=5 (6 thorough) over a 13 entry alphabet of user-module imports (good, failing to compile, raising while loading) that respect "
            "define-before-use; each sequence: Vm::repl with scripted stdin vs Vm::run on the concatenation of the entries that take "
            "effect (lines failing to compile dropped, raising lines wrapped in try); oracle = equal stdout, REPL ends normally. "
            "non-trivial = a sequence in which a later line executes code (call/property/invoke site) compiled on an earlier line")
    assumptions = ["the REPL echoes nothing but the prompt 'laythe:> '; prompts are stripped before comparing",
                   "redefinition of an existing name at the prompt is not modelled (the property does not define it; observed: `let x = 5;` for an existing x is silently ignored)"]

    prompt = "laythe:> "

    def __init__(self, build_kind="checked"):
        self.build_kind = build_kind
        # the prompt is whatever an empty session prints (not a constant of this check)
        from vlib.engine import map_cases
        try:
            r = map_cases([{"repl": []}], build=build_kind)[0]
            if r.get("class") == "ok" and r.get("out"):
                self.prompt = r["out"]
        except Exception:
            pass

    def gen(self, tier):
        if tier == "thorough":
            plans = [(ALL, 5), (QUICK, 6), (IMPORTS, 6), (FIBERS, 7), (NESTED, 6)]
        else:
            plans = [(QUICK, 5), (IMPORTS, 5), (FIBERS, 6), (NESTED, 5)]
        for kind in LONG_KINDS:
            for k in LONG_KS:
                if tier != "thorough" and kind != "let" and k not in (248, 252, 254, 255, 256, 257, 300):
                    continue
                for failing in (False, True):
                    yield ("__long__", kind, k, failing)
        seen_upto = 0
        for alpha, L in plans:
            for seq in sequences(alpha, L):
                n = len(seq)
                if alpha is IMPORTS and not any(x in IMPORT_ONLY for x in seq):
                    continue  # covered by the other plans
                if alpha is FIBERS and ("launchprod" not in seq and "blockline" not in seq and "lr" not in seq):
                    continue  # only sessions in which a fiber is launched or a line blocks (the definitions alone are covered by the other plans)
                if not (seen_upto and n <= 5 and all(x in ALL for x in seq) and alpha is QUICK):
                    yield seq
            seen_upto = L

    def describe(self, spec):
        if spec[0] == "__long__":
            return "long session: a class, an instance, a function, then %d declarations (%s)%s, used in between and afterwards" % (spec[2], spec[1], " with lines that fail to compile and lines that raise in between" if spec[3] else "")
        return " / ".join(E[n][0] for n in spec)

    def build(self, spec):
        if spec[0] == "__long__":
            lines, filetext = long_session(spec[1], spec[2], spec[3])
        else:
            lines = [E[n][0] for n in spec]
            filetext = "\n".join(E[n][1] for n in spec if E[n][1]) + "\n"
        files = dict(FILES)
        files["/v/main.lay"] = filetext
        return [{"repl": lines, "files": FILES, "entry": "/v/main.lay", "step_limit": 2000000},
                {"files": files, "entry": "/v/main.lay", "step_limit": 2000000}], None

    def judge(self, spec, ctx, rs):
        rp, fl = rs
        cross = spec[0] == "__long__" or any(n in ("callgetx", "usefooA", "usefooB", "usepropA", "usepropB", "callinc", "usegood", "usegood2", "recv1", "recv2", "recv3", "recvself", "uselam", "usemeth", "uselam2", "uselamw", "uselamp", "uselamcls") for n in spec)
        if fl.get("class") != "ok":
            v = Verdict(False, cross, "file-not-ok", "the file version did not run cleanly (model error?): class=%s err=%r" % (fl.get("class"), fl.get("err", "")[-300:]))
            v.extra["machinery"] = True
            return v
        out = rp.get("out", "").replace(self.prompt, "")
        if rp.get("class") != "ok" or out != fl.get("out", ""):
            return Verdict(False, True, "repl!=file", "REPL and file disagree: repl class=%s out=%r %s | file out=%r" % (
                rp.get("class"), out[-300:], rp.get("panic") or rp.get("signal") or "", fl.get("out", "")[-300:]))
        return Verdict(True, cross, "ok")


BUILDS = {"quick": ["checked"], "thorough": ["checked", "plain"]}


def main(tier):
    t0 = time.time()
    chk = C19()
    merged = explore(chk, tier, cap_s=(1500 if tier == "thorough" else 200))
    cov = {}
    if tier == "thorough":
        c2 = C19("plain")
        m2 = explore(c2, "quick", cap_s=600)
        cov["plain_build"] = {"evaluations": m2["evaluations"], "failing": m2["fail_count"]}
        for f in m2["failures"][:10]:
            f["reason"] = "[plain build] " + f["reason"]
        merged["failures"].extend(m2["failures"][:10])
        merged["fail_count"] += m2["fail_count"]
        merged["evaluations"] += m2["evaluations"]
    return report.finish(chk, tier, merged, t0, coverage_extra=cov)
