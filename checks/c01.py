"""C01 — expressions, operators and control flow evaluate per the source semantics.

(expr) every expression tree with <= K operators over the operand alphabet
       {nil, true, false, 0, 1, 2, 0.5, '', 'a', 'b', x} and the operators
       ! - + - * / < <= > >= == != && || ?: and assignment-as-expression, placed
       at module level, in a function, a method and a lambda, printed in five
       layouts (minimal parentheses by the reference printer's own precedence
       table, full, redundant, one token per line, interleaved comments);
(stmt) every statement program up to a size bound over let/assign/print/if/else/
       while/for/break/continue/fn/lambda/calls with wrong arity/returns.
Oracle: the reference evaluator (vlib/layref.py) and agreement of all layouts and
positions of one AST.
"""
import itertools, time
from vlib.engine import Check, Verdict, explore
from vlib import report, layref as L, runner as R

LEAVES_FULL = [["nil"], ["bool", True], ["bool", False], ["num", 0], ["num", 1], ["num", 2], ["num", 0.5], ["str", ""], ["str", "a"], ["str", "b"], ["var", "x"]]
LEAVES_RED = [["nil"], ["bool", False], ["num", 1], ["str", "a"], ["var", "x"]]
# numbers that only arise at run time: NaN, both infinities, negative zero (next to 0, 1 and a fraction); one operator over all of them
LEAVES_SPECIAL = [["bin", "/", ["num", 0], ["num", 0]], ["bin", "/", ["num", 1], ["num", 0]], ["bin", "/", ["un", "-", ["num", 1]], ["num", 0]],
                  ["bin", "*", ["num", 0], ["un", "-", ["num", 1]]], ["num", 0], ["num", 1], ["num", 0.5]]
BINOPS = ["+", "-", "*", "/", "<", "<=", ">", ">=", "==", "!="]


def trees(k, leaves, memo):
    """all expression trees with exactly k operators"""
    key = (k, id(leaves))
    if key in memo:
        return memo[key]
    out = []
    if k == 0:
        out = list(leaves)
    else:
        for sub in trees(k - 1, leaves, memo):
            out.append(["un", "!", sub])
            out.append(["un", "-", sub])
            out.append(["assign", "x", sub])
        for i in range(k):
            for a in trees(i, leaves, memo):
                for b in trees(k - 1 - i, leaves, memo):
                    for op in BINOPS:
                        out.append(["bin", op, a, b])
                    out.append(["and", a, b])
                    out.append(["or", a, b])
        if k >= 1:
            for i in range(k):
                for j in range(k - i):
                    for c in trees(i, leaves, memo):
                        for a in trees(j, leaves, memo):
                            for b in trees(k - 1 - i - j, leaves, memo):
                                out.append(["tern", c, a, b])
    memo[key] = out
    return out


POSITIONS = ["module", "fn", "method", "lambda"]
LAYOUTS = ["min", "full", "redundant", "lines", "comments"]


def place(expr, pos):
    show = [["print", [["str", "r"], expr]], ["print", [["str", "x"], ["var", "x"]]]]
    if pos == "module":
        return [["let", "x", ["num", 1]]] + show
    if pos == "fn":
        return [["fn", "f", ["x"], show + [["return", ["var", "x"]]]], ["print", [["call", ["var", "f"], [["num", 1]]]]]]
    if pos == "method":
        return [["class", "K", None, [("method", "m", ["x"], show + [["return", ["var", "x"]]])]],
                ["print", [["invoke", ["call", ["var", "K"], []], "m", [["num", 1]]]]]]
    if pos == "lambda":
        return [["let", "g", ["lambda", ["x"], show + [["return", ["var", "x"]]], False]], ["print", [["call", ["var", "g"], [["num", 1]]]]]]


def expect(stmts):
    it = L.Interp()
    cls, out, ecls, einst = it.run(stmts)
    return cls, out, ecls


# ---- statement programs -------------------------------------------------------------

def stmt_space(tier):
    """small programs exercising control flow; each is a list of statements"""
    V = ["var", "a"]
    conds = [["bin", "<", V, ["num", 2]], ["bin", "==", V, ["num", 1]], ["and", V, ["bool", True]], ["un", "!", V], ["nil"], ["num", 0]]
    bodies = [
        [["print", [["str", "b"], V]]],
        [["expr", ["assign", "a", ["bin", "+", V, ["num", 1]]]], ["print", [V]]],
        [["break"]], [["continue"]],
        [["if", ["bin", "==", V, ["num", 1]], [["break"]], None], ["print", [["str", "after"], V]]],
        [["if", ["bin", "==", V, ["num", 1]], [["continue"]], [["print", [["str", "else"]]]]], ["print", [["str", "t"], V]]],
        [["let", "q", ["bin", "*", V, ["num", 2]]], ["print", [["var", "q"]]]],
    ]
    progs = []
    # if / else
    for c in conds:
        for b1 in bodies[:2] + [bodies[6]]:
            for b2 in (None, bodies[0]):
                progs.append([["let", "a", ["num", 1]], ["if", c, b1, b2], ["print", [["str", "end"], V]]])
    # while with counter (increment first so continue cannot skip it)
    for b in bodies:
        for limit in (0, 1, 3):
            progs.append([["let", "a", ["num", 0]], ["let", "i", ["num", 0]],
                          ["while", ["bin", "<", ["var", "i"], ["num", limit]], [["expr", ["assign", "i", ["bin", "+", ["var", "i"], ["num", 1]]]], ["expr", ["assign", "a", ["var", "i"]]]] + b],
                          ["print", [["str", "end"], V, ["var", "i"]]]])
    # for over n.times() and a list
    for b in bodies:
        for it in (["invoke", ["num", 3], "times", []], ["list", [["num", 1], ["num", 5], ["num", 2]]], ["list", []], ["str", "ab"], ["tuple", [["num", 1], ["num", 2]]]):
            progs.append([["let", "a", ["num", 0]], ["for", "e", it, [["expr", ["assign", "a", ["var", "e"]]]] + b], ["print", [["str", "end"], V]]])
    # nested loops with break/continue
    for inner in (bodies[2], bodies[3], bodies[4], bodies[5]):
        progs.append([["let", "a", ["num", 0]], ["for", "i", ["invoke", ["num", 2], "times", []], [
            ["for", "j", ["invoke", ["num", 3], "times", []], [["expr", ["assign", "a", ["var", "j"]]]] + inner + [["print", [["str", "in"], ["var", "i"], ["var", "j"]]]]],
            ["print", [["str", "out"], ["var", "i"]]]]], ["print", [["str", "end"], V]]])
    # functions: arity, returns
    rets = [[["return", ["bin", "+", ["var", "p"], ["num", 1]]]], [["return", None]], [], [["if", ["var", "p"], [["return", ["str", "t"]]], None], ["return", ["str", "f"]]],
            [["let", "r", ["var", "p"]], ["while", ["bool", True], [["return", ["var", "r"]]]]], [["for", "z", ["list", [["num", 1]]], [["return", ["var", "z"]]]], ["return", ["num", 9]]]]
    for body in rets:
        for nargs in (0, 1, 2):
            for kind in ("fn", "lambda", "method"):
                args = [["num", 4]] * nargs
                if kind == "fn":
                    d = [["fn", "f", ["p"], body]]
                    call = ["call", ["var", "f"], args]
                elif kind == "lambda":
                    d = [["let", "f", ["lambda", ["p"], body, False]]]
                    call = ["call", ["var", "f"], args]
                else:
                    d = [["class", "K", None, [("method", "m", ["p"], body)]]]
                    call = ["invoke", ["call", ["var", "K"], []], "m", args]
                progs.append(d + [["print", [["str", "r"], call]], ["print", [["str", "end"]]]])
    # expression lambdas and nested calls
    progs.append([["let", "f", ["lambda", ["p"], ["bin", "*", ["var", "p"], ["num", 2]], True]], ["print", [["call", ["var", "f"], [["call", ["var", "f"], [["num", 3]]]]]]]])
    progs.append([["fn", "fact", ["n"], [["if", ["bin", "<=", ["var", "n"], ["num", 1]], [["return", ["num", 1]]], None], ["return", ["bin", "*", ["var", "n"], ["call", ["var", "fact"], [["bin", "-", ["var", "n"], ["num", 1]]]]]]]],
                  ["print", [["call", ["var", "fact"], [["num", 5]]]]]])
    # calling non callables
    for v in (["num", 1], ["nil"], ["str", "s"], ["list", []]):
        progs.append([["let", "f", v], ["print", [["str", "before"]]], ["expr", ["call", ["var", "f"], []]], ["print", [["str", "never"]]]])
    return progs


NUM_LITS = [("1.0", 1.0), ("1.50", 1.5), ("007", 7.0), ("1e3", 1000.0), ("1E3", 1000.0), ("1e+3", 1000.0), ("1e-3", 0.001), ("0.1", 0.1), ("12345678901234567890", 12345678901234567890.0),
            ("1.5e2", 150.0), ("0.0", 0.0), ("10", 10.0), ("1e10", 1e10), ("1.7976931348623157e308", 1.7976931348623157e308), ("4.9e-324", 5e-324), ("1e400", float("inf")), ("00.5", 0.5),
            ("9007199254740993", 9007199254740992.0), ("0", 0.0), ("255", 255.0), ("256", 256.0), ("65535", 65535.0), ("65536", 65536.0), ("0.30000000000000004", 0.1 + 0.2), ("123.456", 123.456)]
STR_LITS = [("'a\\nb'", "a\nb"), ("'a\\tb'", "a\tb"), ("'a\\\\b'", "a\\b"), ("'it\\'s'", "it's"), ("\"dq 'x'\"", "dq 'x'"), ("'dq \"y\"'", 'dq "y"'), ("'\\u{41}'", "A"), ("'\\r'", "\r"),
            ("'\\u{1F600}'", "\U0001F600"), ("\"a\\\"b\"", 'a"b'), ("'h\u00e9llo'", "h\u00e9llo"), ("'\u65e5\u672c'", "\u65e5\u672c"), ("''", ""), ("' '", " "), ("'$x'", "$x"), ("'a$'", "a$"), ("'{}'", "{}"),
            # unicode escapes of every length 1..6
            ("'\\u{9}x'", "\tx"), ("'\\u{e9}'", "\u00e9"), ("'\\u{3A9}'", "\u03a9"), ("'\\u{0041}'", "A"), ("'\\u{1f600}'", "\U0001F600"), ("'\\u{01F600}'", "\U0001F600"), ("'\\u{10FFFF}'", "\U0010FFFF"),
            ("'\\u{000041}b'", "Ab")]


def literal_programs():
    out = []
    for text, val in NUM_LITS:
        lit = ["rawnum", text, val]
        out.append([["print", [lit, ["bin", "+", lit, ["num", 0]], ["bin", "==", lit, lit], ["un", "-", lit], ["bin", "*", lit, ["num", 2]], ["list", [lit]], ["invoke", lit, "str", []]]],
                    ["let", "v", lit], ["print", [["var", "v"], ["bin", "<", ["var", "v"], ["num", 1]], ["bin", "/", ["var", "v"], ["num", 4]]]]])
    for text, val in STR_LITS:
        lit = ["rawstr", text, val]
        out.append([["print", [lit, ["invoke", lit, "len", []], ["bin", "+", lit, ["str", "|"]], ["bin", "==", lit, lit], ["list", [lit]]]],
                    ["let", "v", lit], ["print", [["interp", ["<", ["var", "v"], ">"]], ["bin", "<", ["var", "v"], ["str", "b"]], ["invoke", ["var", "v"], "upCase", []]]]])
    return out


def opassign_programs():
    out = []
    V = lambda n: ["var", n]
    for op, start, operand in (("+", 10, 3), ("-", 10, 3), ("*", 10, 3), ("/", 10, 4), ("+", "s", "t")):
        def L(x):
            return ["str", x] if isinstance(x, str) else ["num", x]
        s0, o0 = L(start), L(operand)
        # local, captured local, module variable, parameter
        out.append([["fn", "f", ["p"], [["let", "a", s0], ["expr", ["opassign", op, "a", o0]], ["expr", ["opassign", op, "p", o0]], ["print", [V("a"), V("p"), ["opassign", op, "a", o0]]], ["return", V("a")]]],
                    ["print", [["call", V("f"), [s0]]]]])
        out.append([["fn", "f", [], [["let", "a", s0], ["let", "g", ["lambda", [], [["return", ["opassign", op, "a", o0]]], False]], ["print", [["call", V("g"), []], V("a")]], ["expr", ["opassign", op, "a", o0]],
                                     ["return", ["list", [V("a"), ["call", V("g"), []]]]]]], ["print", [["call", V("f"), []]]]])
        out.append([["let", "m", s0], ["expr", ["opassign", op, "m", o0]], ["fn", "f", [], [["expr", ["opassign", op, "m", o0]], ["return", V("m")]]], ["print", [V("m"), ["call", V("f"), []], V("m")]]])
        # field through self, @ and another object; list index; map index; nested index
        out.append([["class", "K", None, [("method", "init", [], [["expr", ["set", ["self"], "x", s0]], ["expr", ["set", ["self"], "y", s0]]]),
                                         ("method", "m", [], [["expr", ["opset", op, ["self"], "x", o0]], ["return", ["list", [["get", ["self"], "x"], ["opset", op, ["self"], "y", o0]]]]])]],
                    ["let", "k", ["call", V("K"), []]], ["print", [["invoke", V("k"), "m", []]]], ["expr", ["opset", op, V("k"), "x", o0]], ["print", [["get", V("k"), "x"], ["get", V("k"), "y"]]]])
        out.append([["let", "l", ["list", [s0, s0]]], ["expr", ["opindex", op, V("l"), ["num", 0], o0]], ["expr", ["opindex", op, V("l"), ["num", -1], o0]], ["print", [V("l"), ["opindex", op, V("l"), ["num", 1], o0]]],
                    ["let", "mm", ["map", [(["str", "a"], s0)]]], ["expr", ["opindex", op, V("mm"), ["str", "a"], o0]], ["print", [["index", V("mm"), ["str", "a"]]]],
                    ["let", "n", ["list", [["list", [s0]]]]], ["expr", ["opindex", op, ["index", V("n"), ["num", 0]], ["num", 0], o0]], ["print", [V("n")]]])
    # wrong operand types raise and leave the target unchanged
    out.append([["let", "a", ["num", 1]], ["try", [["expr", ["opassign", "+", "a", ["str", "x"]]]], "e", None, [["print", [["str", "err"], ["invoke", ["invoke", V("e"), "cls", []], "name", []]]]]], ["print", [V("a")]]])
    out.append([["let", "l", ["list", [["num", 1]]]], ["try", [["expr", ["opindex", "-", V("l"), ["num", 0], ["nil"]]]], "e", None, [["print", [["str", "err"], ["invoke", ["invoke", V("e"), "cls", []], "name", []]]]]], ["print", [V("l")]]])
    out.append([["let", "l", ["list", [["num", 1]]]], ["try", [["expr", ["opindex", "+", V("l"), ["num", 3], ["num", 1]]]], "e", None, [["print", [["str", "err"], ["invoke", ["invoke", V("e"), "cls", []], "name", []]]]]], ["print", [V("l")]]])
    return out


def adjacent_programs():
    """an assignment statement directly followed by a statement that begins by reading a variable, for every ordered pair of
    variables over all storage kinds (parameter, local, local captured by an inner lambda, capture of an enclosing function's
    local/parameter, module variable) — slot numbers and capture indices coincide for several pairs — x 3 assignment forms
    x 3 following statement shapes; afterwards every variable is printed"""
    V = lambda n: ["var", n]
    N = lambda x: ["num", x]
    names = ["p0", "p1", "l0", "l1", "b0", "b1", "oc0", "oc1", "oc2", "q0", "m0", "m1"]
    out = []
    for x in names:
        for y in names:
            for form in ("const", "self", "op"):
                asg = {"const": ["expr", ["assign", x, N(5)]], "self": ["expr", ["assign", x, ["bin", "+", V(x), N(1)]]], "op": ["expr", ["opassign", "+", x, N(2)]]}[form]
                for shape in ("let", "if", "assign"):
                    nxt = {"let": [["let", "r", ["bin", "+", V(y), N(1000)]], ["print", [["str", "r"], V("r")]]],
                           "if": [["if", ["bin", ">", V(y), N(250)], [["print", [["str", "big"]]]], [["print", [["str", "small"]]]]]],
                           "assign": [["expr", ["assign", "r2", V(y)]], ["print", [["str", "r2"], V("r2")]]]}[shape]
                    inner = [["let", "l0", N(300)], ["let", "l1", N(301)], ["let", "b0", N(400)], ["let", "b1", N(401)], ["let", "r2", N(0)],
                             ["let", "peek", ["lambda", [], [["return", ["bin", "+", V("b0"), V("b1")]]], False]],
                             ["let", "t", ["bin", "+", ["bin", "+", ["bin", "+", V("oc0"), V("oc1")], V("oc2")], V("q0")]],
                             asg] + nxt + [["print", [V(n) for n in names] + [["call", V("peek"), []], V("t")]], ["return", V(x)]]
                    outer = [["let", "oc0", N(200)], ["let", "oc1", N(201)], ["let", "oc2", N(202)], ["fn", "inner", ["p0", "p1"], inner],
                             ["print", [["str", "ret"], ["call", V("inner"), [N(1), N(2)]]]], ["print", [V("oc0"), V("oc1"), V("oc2"), V("q0"), V("q1")]], ["return", N(0)]]
                    out.append([["let", "m0", N(100)], ["let", "m1", N(101)], ["fn", "outer", ["q0", "q1"], outer], ["expr", ["call", V("outer"), [N(500), N(501)]]], ["print", [V("m0"), V("m1")]]])
    return out


def widen(stmts, n=260):
    """the same program with a table of n distinct constants in front of the module's code and of every function, lambda and method body:
    every constant used afterwards has an index >= 256 (long operand forms, jump distances across them)"""
    def table(tag):
        return ["let", "wide_table_%s" % tag, ["list", [["num", 1000.5 + i] for i in range(n)]]]
    cnt = [0]

    def body(b):
        cnt[0] += 1
        return [table("f%d" % cnt[0])] + [st(x) for x in b]

    def ex(e):
        if not isinstance(e, list) or not e:
            return e
        if e[0] == "lambda":
            return ["lambda", e[1], ex(e[2]) if e[3] else body(e[2]), e[3]]
        return [ex(x) if isinstance(x, list) else (tuple(ex(y) if isinstance(y, list) else y for y in x) if isinstance(x, tuple) else x) for x in e]

    def st(x):
        if not isinstance(x, list) or not x:
            return x
        if x[0] == "fn":
            return ["fn", x[1], x[2], body(x[3])]
        if x[0] == "class":
            return ["class", x[1], x[2], [(m[0], m[1], m[2], body(m[3])) for m in x[3]]]
        return ex(x)
    return [table("m")] + [st(x) for x in stmts]


def elseif_programs():
    out = []
    for x in range(0, 5):
        for nbranches in (1, 2, 3):
            for has_else in (False, True):
                chain = [["print", [["str", "else"]]]] if has_else else None
                for k in range(nbranches, 0, -1):
                    node = ["if", ["bin", "==", ["var", "x"], ["num", k]], [["print", [["str", "b%d" % k]]], ["let", "inner", ["num", k]]], chain]
                    if k > 1:
                        node.append("elseif")
                        chain = [node]
                    else:
                        chain = node
                out.append([["let", "x", ["num", x]], chain, ["print", [["str", "after"], ["var", "x"]]]])
    return out


class C01(Check):
    id = "C01"
    level = "exploration"
    rule = ""
    assumptions = ["reference semantics vlib/layref.py (trusted); messages of VM errors are not compared, only the error class",
                   "number formatting follows Rust's Display for f64 (shared with Laythe, trusted)"]

    def gen(self, tier):
        memo = {}
        th = tier == "thorough"
        # (expr)
        for e in trees(0, LEAVES_FULL, memo) + trees(1, LEAVES_FULL, memo):
            yield ("expr", e, POSITIONS, LAYOUTS)
        for e in trees(1, LEAVES_SPECIAL, memo):
            yield ("expr", e, ["module", "fn"], ["min", "full"])
        if th:
            for e in trees(2, LEAVES_FULL, memo):
                yield ("expr", e, ["module", "method"], ["min", "full"])
            for e in trees(3, LEAVES_RED[:4], memo):
                yield ("expr", e, ["fn"], ["min"])
        else:
            for e in trees(2, LEAVES_RED, memo):
                yield ("expr", e, ["module", "lambda"], ["min", "full"])
        for i, p in enumerate(stmt_space(tier)):
            yield ("stmt", p, None, (LAYOUTS + ["typed"]) if th else ["min", "comments", "typed"])
        for p in literal_programs() + opassign_programs() + elseif_programs():
            yield ("stmt", p, None, ["min", "full", "comments", "typed"])
        for p in adjacent_programs():
            yield ("stmt", p, None, ["min", "comments"])
        # the same statement programs behind > 256 constants per function
        for p in stmt_space(tier) + elseif_programs() + opassign_programs():
            yield ("stmt", widen(p), None, ["min"])

    def describe(self, spec):
        if spec[0] == "expr":
            return "expr " + L.Printer("min").ex(spec[1])[0]
        return "stmt " + L.render(spec[1])[0].replace("\n", " ")[:300]

    def build(self, spec):
        cases, exps = [], []
        if spec[0] == "expr":
            for pos in spec[2]:
                stmts = place(spec[1], pos)
                exp = expect(stmts)
                for lay in spec[3]:
                    src, _ = L.render(stmts, lay)
                    cases.append({"src": src, "step_limit": 200000})
                    exps.append((exp, pos, lay))
        else:
            exp = expect(spec[1])
            for lay in spec[3]:
                src, _ = L.render(spec[1], lay)
                cases.append({"src": src, "step_limit": 500000})
                exps.append((exp, "-", lay))
        return cases, exps

    def judge(self, spec, exps, rs):
        outcome = None
        for r, ((cls, out, ecls), pos, lay) in zip(rs, exps):
            got_cls = r.get("class")
            ok = got_cls == cls and r.get("out") == out
            if ok and cls == "runtime_error":
                last = r.get("err", "").strip().split("\n")[-1]
                ok = last.startswith(ecls + ":") or last == ecls
            if not ok:
                return Verdict(False, True, "mismatch", "position=%s layout=%s: expected class=%s%s out=%r; got class=%s out=%r err=%r %s\nsource:\n%s" % (
                    pos, lay, cls, ("(" + str(ecls) + ")") if ecls else "", out, got_cls, r.get("out"), r.get("err", "")[-200:], r.get("panic") or "", ""))
            outcome = cls + ":" + (ecls or "") + ":" + out[:40]
        nontriv = spec[0] == "stmt" or spec[1][0] not in ("nil", "bool", "num", "str", "var")
        return Verdict(True, nontriv, outcome)


def main(tier):
    t0 = time.time()
    chk = C01()
    memo = {}
    chk.rule = ("(expr) all trees with <= 1 operator over an 11 leaf alphabet x 4 positions x 5 layouts; quick: all trees with 2 operators over a 5 leaf "
                "alphabet x 2 positions x 2 layouts; thorough: 2 operators over the full alphabet and 3 operators over 4 leaves; operators: ! - (unary) "
                "+ - * / < <= > >= == != && || ?: and assignment; (stmt) %d control-flow/function programs x layouts, plus literal spellings (25 number, 17 string literals), compound assignment (5 operator/type combinations x local, captured, module, parameter, field via self/object, list/map/nested index) and else-if chains. oracle = reference evaluator. "
                "non-trivial = case with at least one operator or statement program" % len(stmt_space(tier)))
    merged = explore(chk, tier, cap_s=(1500 if tier == "thorough" else 200))
    return report.finish(chk, tier, merged, t0)
