"""C01 — expressions, operators and control flow evaluate per the source semantics.

(expr) every expression tree with <= K operators over the operand alphabet
       {nil, true, false, 0, 1, 2, 0.5, '', 'a', 'b', x} and the operators
       ! - + - * / < <= > >= == != && || ?: and assignment-as-expression, placed
       at module level, in a function, a method and a lambda, printed in five
       layouts (minimal parentheses by the reference printer's own precedence
       table, full, redundant, one token per line, interleaved comments);
(stmt) every statement program up to a size bound over let/assign/print/if/else/
       while/for/break/continue/fn/lambda/calls with wrong arity/returns.
Oracle: the reference evaluator (vlib/layref.py) and agreement of all layouts and
positions of one AST.
"""
import itertools, time
from vlib.engine import Check, Verdict, explore
from vlib import report, layref as L, runner as R

LEAVES_FULL = [["nil"], ["bool", True], ["bool", False], ["num", 0], ["num", 1], ["num", 2], ["num", 0.5], ["str", ""], ["str", "a"], ["str", "b"], ["var", "x"]]
LEAVES_RED = [["nil"], ["bool", False], ["num", 1], ["str", "a"], ["var", "x"]]
BINOPS = ["+", "-", "*", "/", "<", "<=", ">", ">=", "==", "!="]


def trees(k, leaves, memo):
    """all expression trees with exactly k operators"""
    key = (k, id(leaves))
    if key in memo:
        return memo[key]
    out = []
    if k == 0:
        out = list(leaves)
    else:
        for sub in trees(k - 1, leaves, memo):
            out.append(["un", "!", sub])
            out.append(["un", "-", sub])
            out.append(["assign", "x", sub])
        for i in range(k):
            for a in trees(i, leaves, memo):
                for b in trees(k - 1 - i, leaves, memo):
                    for op in BINOPS:
                        out.append(["bin", op, a, b])
                    out.append(["and", a, b])
                    out.append(["or", a, b])
        if k >= 1:
            for i in range(k):
                for j in range(k - i):
                    for c in trees(i, leaves, memo):
                        for a in trees(j, leaves, memo):
                            for b in trees(k - 1 - i - j, leaves, memo):
                                out.append(["tern", c, a, b])
    memo[key] = out
    return out


POSITIONS = ["module", "fn", "method", "lambda"]
LAYOUTS = ["min", "full", "redundant", "lines", "comments"]


def place(expr, pos):
    show = [["print", [["str", "r"], expr]], ["print", [["str", "x"], ["var", "x"]]]]
    if pos == "module":
        return [["let", "x", ["num", 1]]] + show
    if pos == "fn":
        return [["fn", "f", ["x"], show + [["return", ["var", "x"]]]], ["print", [["call", ["var", "f"], [["num", 1]]]]]]
    if pos == "method":
        return [["class", "K", None, [("method", "m", ["x"], show + [["return", ["var", "x"]]])]],
                ["print", [["invoke", ["call", ["var", "K"], []], "m", [["num", 1]]]]]]
    if pos == "lambda":
        return [["let", "g", ["lambda", ["x"], show + [["return", ["var", "x"]]], False]], ["print", [["call", ["var", "g"], [["num", 1]]]]]]


def expect(stmts):
    it = L.Interp()
    cls, out, ecls, einst = it.run(stmts)
    return cls, out, ecls


# ---- statement programs -------------------------------------------------------------

def stmt_space(tier):
    """small programs exercising control flow; each is a list of statements"""
    V = ["var", "a"]
    conds = [["bin", "<", V, ["num", 2]], ["bin", "==", V, ["num", 1]], ["and", V, ["bool", True]], ["un", "!", V], ["nil"], ["num", 0]]
    bodies = [
        [["print", [["str", "b"], V]]],
        [["expr", ["assign", "a", ["bin", "+", V, ["num", 1]]]], ["print", [V]]],
        [["break"]], [["continue"]],
        [["if", ["bin", "==", V, ["num", 1]], [["break"]], None], ["print", [["str", "after"], V]]],
        [["if", ["bin", "==", V, ["num", 1]], [["continue"]], [["print", [["str", "else"]]]]], ["print", [["str", "t"], V]]],
        [["let", "q", ["bin", "*", V, ["num", 2]]], ["print", [["var", "q"]]]],
    ]
    progs = []
    # if / else
    for c in conds:
        for b1 in bodies[:2] + [bodies[6]]:
            for b2 in (None, bodies[0]):
                progs.append([["let", "a", ["num", 1]], ["if", c, b1, b2], ["print", [["str", "end"], V]]])
    # while with counter (increment first so continue cannot skip it)
    for b in bodies:
        for limit in (0, 1, 3):
            progs.append([["let", "a", ["num", 0]], ["let", "i", ["num", 0]],
                          ["while", ["bin", "<", ["var", "i"], ["num", limit]], [["expr", ["assign", "i", ["bin", "+", ["var", "i"], ["num", 1]]]], ["expr", ["assign", "a", ["var", "i"]]]] + b],
                          ["print", [["str", "end"], V, ["var", "i"]]]])
    # for over n.times() and a list
    for b in bodies:
        for it in (["invoke", ["num", 3], "times", []], ["list", [["num", 1], ["num", 5], ["num", 2]]], ["list", []], ["str", "ab"], ["tuple", [["num", 1], ["num", 2]]]):
            progs.append([["let", "a", ["num", 0]], ["for", "e", it, [["expr", ["assign", "a", ["var", "e"]]]] + b], ["print", [["str", "end"], V]]])
    # nested loops with break/continue
    for inner in (bodies[2], bodies[3], bodies[4], bodies[5]):
        progs.append([["let", "a", ["num", 0]], ["for", "i", ["invoke", ["num", 2], "times", []], [
            ["for", "j", ["invoke", ["num", 3], "times", []], [["expr", ["assign", "a", ["var", "j"]]]] + inner + [["print", [["str", "in"], ["var", "i"], ["var", "j"]]]]],
            ["print", [["str", "out"], ["var", "i"]]]]], ["print", [["str", "end"], V]]])
    # functions: arity, returns
    rets = [[["return", ["bin", "+", ["var", "p"], ["num", 1]]]], [["return", None]], [], [["if", ["var", "p"], [["return", ["str", "t"]]], None], ["return", ["str", "f"]]],
            [["let", "r", ["var", "p"]], ["while", ["bool", True], [["return", ["var", "r"]]]]], [["for", "z", ["list", [["num", 1]]], [["return", ["var", "z"]]]], ["return", ["num", 9]]]]
    for body in rets:
        for nargs in (0, 1, 2):
            for kind in ("fn", "lambda", "method"):
                args = [["num", 4]] * nargs
                if kind == "fn":
                    d = [["fn", "f", ["p"], body]]
                    call = ["call", ["var", "f"], args]
                elif kind == "lambda":
                    d = [["let", "f", ["lambda", ["p"], body, False]]]
                    call = ["call", ["var", "f"], args]
                else:
                    d = [["class", "K", None, [("method", "m", ["p"], body)]]]
                    call = ["invoke", ["call", ["var", "K"], []], "m", args]
                progs.append(d + [["print", [["str", "r"], call]], ["print", [["str", "end"]]]])
    # expression lambdas and nested calls
    progs.append([["let", "f", ["lambda", ["p"], ["bin", "*", ["var", "p"], ["num", 2]], True]], ["print", [["call", ["var", "f"], [["call", ["var", "f"], [["num", 3]]]]]]]])
    progs.append([["fn", "fact", ["n"], [["if", ["bin", "<=", ["var", "n"], ["num", 1]], [["return", ["num", 1]]], None], ["return", ["bin", "*", ["var", "n"], ["call", ["var", "fact"], [["bin", "-", ["var", "n"], ["num", 1]]]]]]]],
                  ["print", [["call", ["var", "fact"], [["num", 5]]]]]])
    # calling non callables
    for v in (["num", 1], ["nil"], ["str", "s"], ["list", []]):
        progs.append([["let", "f", v], ["print", [["str", "before"]]], ["expr", ["call", ["var", "f"], []]], ["print", [["str", "never"]]]])
    return progs


class C01(Check):
    id = "C01"
    level = "exploration"
    rule = ""
    assumptions = ["reference semantics vlib/layref.py (trusted); messages of VM errors are not compared, only the error class",
                   "number formatting follows Rust's Display for f64 (shared with Laythe, trusted)"]

    def gen(self, tier):
        memo = {}
        th = tier == "thorough"
        # (expr)
        for e in trees(0, LEAVES_FULL, memo) + trees(1, LEAVES_FULL, memo):
            yield ("expr", e, POSITIONS, LAYOUTS)
        if th:
            for e in trees(2, LEAVES_FULL, memo):
                yield ("expr", e, ["module", "method"], ["min", "full"])
            for e in trees(3, LEAVES_RED[:4], memo):
                yield ("expr", e, ["fn"], ["min"])
        else:
            for e in trees(2, LEAVES_RED, memo):
                yield ("expr", e, ["module", "lambda"], ["min", "full"])
        for i, p in enumerate(stmt_space(tier)):
            yield ("stmt", p, None, LAYOUTS if th else ["min", "comments"])

    def describe(self, spec):
        if spec[0] == "expr":
            return "expr " + L.Printer("min").ex(spec[1])[0]
        return "stmt " + L.render(spec[1])[0].replace("\n", " ")[:300]

    def build(self, spec):
        cases, exps = [], []
        if spec[0] == "expr":
            for pos in spec[2]:
                stmts = place(spec[1], pos)
                exp = expect(stmts)
                for lay in spec[3]:
                    src, _ = L.render(stmts, lay)
                    cases.append({"src": src, "step_limit": 200000})
                    exps.append((exp, pos, lay))
        else:
            exp = expect(spec[1])
            for lay in spec[3]:
                src, _ = L.render(spec[1], lay)
                cases.append({"src": src, "step_limit": 500000})
                exps.append((exp, "-", lay))
        return cases, exps

    def judge(self, spec, exps, rs):
        outcome = None
        for r, ((cls, out, ecls), pos, lay) in zip(rs, exps):
            got_cls = r.get("class")
            ok = got_cls == cls and r.get("out") == out
            if ok and cls == "runtime_error":
                last = r.get("err", "").strip().split("\n")[-1]
                ok = last.startswith(ecls + ":") or last == ecls
            if not ok:
                return Verdict(False, True, "mismatch", "position=%s layout=%s: expected class=%s%s out=%r; got class=%s out=%r err=%r %s\nsource:\n%s" % (
                    pos, lay, cls, ("(" + str(ecls) + ")") if ecls else "", out, got_cls, r.get("out"), r.get("err", "")[-200:], r.get("panic") or "", ""))
            outcome = cls + ":" + (ecls or "") + ":" + out[:40]
        nontriv = spec[0] == "stmt" or spec[1][0] not in ("nil", "bool", "num", "str", "var")
        return Verdict(True, nontriv, outcome)


def main(tier):
    t0 = time.time()
    chk = C01()
    memo = {}
    chk.rule = ("(expr) all trees with <= 1 operator over an 11 leaf alphabet x 4 positions x 5 layouts; quick: all trees with 2 operators over a 5 leaf "
                "alphabet x 2 positions x 2 layouts; thorough: 2 operators over the full alphabet and 3 operators over 4 leaves; operators: ! - (unary) "
                "+ - * / < <= > >= == != && || ?: and assignment; (stmt) %d control-flow/function programs x layouts. oracle = reference evaluator. "
                "non-trivial = case with at least one operator or statement program" % len(stmt_space(tier)))
    merged = explore(chk, tier, cap_s=(1500 if tier == "thorough" else 200))
    return report.finish(chk, tier, merged, t0)
