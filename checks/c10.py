"""C10 — object identity is stable under mutation; any value works as a map key.

Histories: subject in {lists of length 3, 4, 5, 8 (capacities 4 and 8: below, at and across
the growth boundary), map, instance}; aliases held in a variable, an instance field, nested
lists of depth 1 and 2, a map value, a closure capture and a value passed through a channel;
every sequence of <= L mutating operations (push, insert, remove, pop, index assignment,
clear / map set, remove / field write), each applied through one of 4 aliases; the aliases
are taken before the history or only after its first 1-2 operations (which may already have
grown the list); program at module level and inside a function. After every operation: == of the subject with every
alias, lookups in a map keyed by the subject before the history (through two aliases),
list.has/index and tuple.has/index of containers holding it, and the contents through
every alias.
Oracle: reference evaluator (immutable identity). Known finding D6 (list growth) is
attributed by a model-side guard: the list grew past its capacity earlier in the history.
"""
import itertools, time
from vlib.engine import Check, Verdict, explore
from vlib import report, layref as L

def N(x): return ["num", x]
def S(x): return ["str", x]
def V(x): return ["var", x]
def call(f, *a): return ["call", V(f) if isinstance(f, str) else f, list(a)]
def inv(o, m, *a): return ["invoke", o, m, list(a)]

ALIASES = {"subj": V("subj"), "field": ["get", V("box"), "v"], "nest2": ["index", ["index", V("nest2"), N(0)], N(0)], "clo": call("clo")}
LIST_OPS = ["push", "insert", "remove", "pop", "setidx", "clear", "push2"]
MAP_OPS = ["set", "remove", "setidx", "insert"]
INST_OPS = ["write", "bump"]


def op_stmt(kind, op, alias, k):
    a = ALIASES[alias]
    if kind == "list":
        e = {"push": inv(a, "push", N(90 + k)), "push2": inv(a, "push", N(80 + k), N(70 + k)), "insert": inv(a, "insert", N(0), N(60 + k)), "remove": inv(a, "remove", N(0)),
             "pop": inv(a, "pop"), "setidx": ["indexset", a, N(0), N(50 + k)], "clear": inv(a, "clear")}[op]
    elif kind == "map":
        e = {"set": inv(a, "set", S("n%d" % k), N(k)), "remove": inv(a, "remove", S("a")), "setidx": ["indexset", a, S("a"), N(40 + k)], "insert": inv(a, "insert", N(k), S("v"))}[op]
    else:
        e = {"write": ["set", a, "f", N(30 + k)], "bump": ["opset", "+", a, "f", N(1)]}[op]
    return ["try", [["expr", e]], "e", None, [["print", [S("op!"), inv(inv(V("e"), "cls"), "name")]]]]


def contents(kind, a):
    if kind == "list":
        return a
    if kind == "map":
        return ["list", [inv(a, "len"), inv(a, "get", S("a")), inv(a, "get", S("n1")), inv(a, "get", N(2))]]
    return ["get", a, "f"]


def program(kind, init, ops, infn, alias_after=0):
    if kind == "list":
        subj = ["list", [N(x) for x in init]]
    elif kind == "map":
        subj = ["map", [(S("a"), N(1)), (S("b"), N(2))]]
    else:
        subj = call("Thing")
    pre = [["class", "Box", None, [("method", "init", ["v"], [["expr", ["set", ["self"], "v", V("v")]]])]],
           ["class", "Thing", None, [("method", "init", [], [["expr", ["set", ["self"], "f", N(0)]]])]]]
    early = [op_stmt(kind, op, "subj", 50 + k) for k, (op, alias) in enumerate(ops[:alias_after])]
    ops = ops[alias_after:]
    # `early` operations run while the subject is only held by its own variable; every alias, key and container is taken afterwards
    body = [["let", "subj", subj]] + early + [["let", "other", ["list", [N(1), N(2), N(3)]] if kind == "list" else (["map", [(S("a"), N(1)), (S("b"), N(2))]] if kind == "map" else call("Thing"))],
            ["let", "loc", V("subj")], ["let", "box", call("Box", V("subj"))], ["let", "nest1", ["list", [V("subj")]]], ["let", "nest2", ["list", [["list", [V("subj")]]]]],
            ["let", "mval", ["map", [(S("k"), V("subj"))]]], ["let", "cap", V("subj")], ["let", "clo", ["lambda", [], V("cap"), True]],
            ["let", "ch", ["chan", N(1)]], ["expr", ["send", V("ch"), V("subj")]], ["let", "via", ["recv", V("ch")]],
            ["let", "keyed", ["map", []]], ["expr", ["indexset", V("keyed"), V("subj"), S("K")]], ["expr", ["indexset", V("keyed"), V("other"), S("O")]],
            ["let", "tup", ["tuple", [V("other"), V("subj")]]], ["let", "lst", ["list", [N(0), V("other"), V("subj")]]],
            # a registry that itself grows after the subject was stored in it, reached through a field that still names its first block
            ["let", "reg", ["list", [V("other")]]], ["let", "rbox", call("Box", V("reg"))], ["expr", inv(V("reg"), "push", V("subj"))],
            ["for", "ri", inv(N(6), "times"), [["expr", inv(V("reg"), "push", ["list", [V("ri")]])]]]]
    al = [V("loc"), ["get", V("box"), "v"], ["index", V("nest1"), N(0)], ["index", ["index", V("nest2"), N(0)], N(0)], ["index", V("mval"), S("k")], call("clo"), V("via")]
    observe = [["print", [S("eq")] + [["bin", "==", V("subj"), a] for a in al] + [["bin", "==", al[1], al[3]], ["bin", "!=", V("subj"), V("other")], ["bin", "==", al[5], V("other")]]],
               ["print", [S("key"), inv(V("keyed"), "has", V("subj")), inv(V("keyed"), "get", al[1]), inv(V("keyed"), "get", al[3]), inv(V("keyed"), "get", V("other")), inv(V("keyed"), "len")]],
               ["try", [["print", [S("idx"), ["index", V("keyed"), al[5]], ["index", V("keyed"), V("via")]]]], "e", None, [["print", [S("idx!"), inv(inv(V("e"), "cls"), "name")]]]],
               ["print", [S("has"), inv(V("lst"), "has", V("subj")), inv(V("lst"), "index", al[3]), inv(V("lst"), "index", al[1]), inv(V("tup"), "has", al[1]), inv(V("tup"), "index", V("subj")), inv(V("tup"), "index", al[5]), inv(V("nest1"), "has", al[3])]],
               ["print", [S("reg"), inv(["get", V("rbox"), "v"], "has", V("subj")), inv(["get", V("rbox"), "v"], "has", al[1]), inv(V("reg"), "has", al[3]), inv(["get", V("rbox"), "v"], "has", V("other")),
                          inv(["get", V("rbox"), "v"], "len"), ["bin", "==", ["get", V("rbox"), "v"], V("reg")]]],
               ["print", [S("cont"), contents(kind, V("subj"))] + [contents(kind, a) for a in (al[1], al[3], al[5], al[6])]]]
    # observations are inlined: a closure over `subj` would box it (it must stay a plain stack local, the only place references are forwarded)
    body += observe
    for k, (op, alias) in enumerate(ops):
        body.append(op_stmt(kind, op, alias, k + 1))
        body += observe
    # the key still finds its entry after new keys force the map to rehash
    body += [["for", "i", inv(N(20), "times"), [["expr", ["indexset", V("keyed"), V("i"), V("i")]]]]] + observe
    if infn:
        return pre + [["fn", "run", [], body + [["return", ["nil"]]]], ["expr", call("run")]]
    return pre + body


def grew(init_len, ops, alias_after=0):
    """model-side guard of D6, independent of the runtime's capacity policy: the first step (1-based, counted from the first operation after the
    aliases were taken) at which the list becomes longer than it has ever been since the aliases were taken - any such step may re-allocate it. None if there is none"""
    n = init_len
    high = None
    for k, (op, alias) in enumerate(ops):
        k = k - alias_after
        if k == 0 and high is None:
            high = n
        if alias_after == 0 and high is None:
            high = n
        add = {"push": 1, "insert": 1, "push2": 2}.get(op, 0)
        if op in ("remove", "pop") and n > 0:
            n -= 1
        elif op == "clear":
            n = 0
        n += add
        if k >= 0 and add and n > high:
            return k + 1
    return None


# ---- any value works as a map key: key equality is the language's == (IEEE numbers: -0 == 0, NaN equals nothing; strings by
# content; booleans, nil; objects by identity), whatever the size of the map and whatever was removed from it before
KEYS = [("0", ("n", 0.0)), ("0 * -1", ("n", 0.0)), ("1", ("n", 1.0)), ("2 / 2", ("n", 1.0)), ("0.5", ("n", 0.5)), ("1e21", ("n", 1e21)), ("-1", ("n", -1.0)),
        ("4294967296", ("n", 4294967296.0)), ("0.1 + 0.2", ("n", 0.1 + 0.2)), ("0.3", ("n", 0.3)), ("true", ("b", True)), ("false", ("b", False)), ("nil", ("nil",)),
        ("''", ("s", "")), ("'a'", ("s", "a")), ("'' + 'a'", ("s", "a")), ("'0'", ("s", "0")), ("'1'", ("s", "1")), ("o", ("o", 1)), ("o2", ("o", 1)), ("p", ("o", 2)),
        ("0 / 0", ("nan",)),
        # a string that was held only by a collecting native's temporary root while a collection ran inside that native, and the same characters built afterwards
        ("4.times().map(|j| { if j == 2 { print('@@gc full'); } return 'q' + j.str(); }).list()[0]", ("s", "q0")), ("'q' + [0][0].str()", ("s", "q0"))]
KEY_SIZES = [0, 20, 150, 600]


def key_program(k1, k2, size):
    """returns (source, expected stdout). Fillers: numbers 10.., strings 'k10'.., half of them removed later (tombstones), then re-added (rehash)."""
    (e1, c1), (e2, c2) = KEYS[k1], KEYS[k2]
    same = c1 == c2 and c1 != ("nan",)
    nan1, nan2 = c1 == ("nan",), c2 == ("nan",)
    b = lambda x: "true" if x else "false"
    src = ("class O {}\nlet o = O(); let o2 = o; let p = O();\nlet m = {};\n"
           "for i in %d.times() { m[i + 10] = i; m['k' + i.str()] = i; }\n" % size)
    n = 2 * size
    exp = []
    src += "let a = %s; let b = %s;\nm[a] = 'first';\nprint(m.has(b), m.get(b), m.len(), [a].has(b), [a].index(b), (a, 'x').has(b), a == b);\n" % (e1, e2)
    n += 1
    exp.append("%s %s %d %s %s %s %s" % (b(same), "first" if same else "nil", n, b(same), "0" if same else "nil", b(same), b(same)))
    src += "m[b] = 'second';\nprint(m.len(), m.get(a), m.get(b));\n"
    if not same:
        n += 1
    exp.append("%d %s %s" % (n, "nil" if nan1 else ("second" if same else "first"), "nil" if nan2 else "second"))
    src += "for i in %d.times() { if i - (i / 2).floor() * 2 == 0 { m.remove(i + 10); m.remove('k' + i.str()); } }\n" % size
    n -= 2 * ((size + 1) // 2)
    src += "print(m.len(), m.has(a), m.has(b), m.get(a));\n"
    exp.append("%d %s %s %s" % (n, b(not nan1), b(not nan2), "nil" if nan1 else ("second" if same else "first")))
    src += "try { print(m.remove(b)); } catch e { print('remove!', e.cls().name()); }\nprint(m.len(), m.has(a), m.has(b));\n"
    if nan2:
        exp.append("remove! KeyError")
    else:
        exp.append("second")
        n -= 1
    exp.append("%d %s false" % (n, b((not nan1) and not same)))
    src += "for i in %d.times() { m[i + 10] = i; m['k' + i.str()] = i; m['extra' + i.str()] = i; }\nm[a] = 'third';\n" % size
    # after re-adding: fillers 2*size + size extra
    base_special = n - (2 * size - 2 * ((size + 1) // 2))
    n = 3 * size + base_special
    if nan1 or same or True:
        # m[a] = 'third' adds an entry unless a is still present (a present iff not nan1 and not same)
        if nan1 or same:
            n += 1
    src += "print(m.len(), m.get(a), m.get(b), m.has(10), m.has('k0'));\n"
    exp.append("%d %s %s %s %s" % (n, "nil" if nan1 else "third", ("third" if same else "nil"), b(size > 0), b(size > 0)))
    return src, "\n".join(exp) + "\n"


class C10(Check):
    id = "C10"
    level = "exploration"
    rule = ""
    # the finding is identified by the guard below (growth after aliasing) AND the recorded failing inputs; an input is a history together with
    # the place of its first wrong line (known_regions/C10.json.gz, written by `./vc freeze C10`), so that a history that starts to fail earlier is reported

    assumptions = ["reference evaluator: objects carry an immutable identity; maps are association lists with identity/IEEE key equality",
                   "the alias 'through another fiber' is realised as a value sent through and received from a channel",
                   "D6 guard: the list became longer than at any time since the aliases were taken (any such step may re-allocate it); independent of the capacity policy"]

    def gen(self, tier):
        L_ = 4 if tier == "thorough" else 2
        aliases = list(ALIASES)
        for infn in (False, True):
            for init in ([1, 2, 3], [1, 2, 3, 4], [1, 2, 3, 4, 5], [1, 2, 3, 4, 5, 6, 7, 8]):
                for n in range(0, L_ + 1):
                    for ops in itertools.product(LIST_OPS, repeat=n):
                        als = itertools.product(aliases, repeat=n) if n <= 2 else [tuple(aliases[(i + j) % 4] for j in range(n)) for i in range(4)]
                        for al in als:
                            yield ("list", tuple(init), tuple(zip(ops, al)), infn)
                        # the same histories with the aliases taken only after the first 1 or 2 operations (which may already have grown the list)
                        for aa in (1, 2):
                            if n > aa or (n == aa and n >= 1):
                                for al in ([tuple(aliases[(i + j) % 4] for j in range(n)) for i in range(4)] if n else []):
                                    yield ("list", tuple(init), tuple(zip(ops, al)), infn, aa)
            for kind, OPS in (("map", MAP_OPS), ("inst", INST_OPS)):
                for n in range(0, L_ + 1):
                    for ops in itertools.product(OPS, repeat=n):
                        for al in (itertools.product(aliases, repeat=n) if n <= 3 else [tuple(aliases[(i + j) % 4] for j in range(n)) for i in range(4)]):
                            yield (kind, (), tuple(zip(ops, al)), infn)
        for size in KEY_SIZES:
            for k1 in range(len(KEYS)):
                for k2 in range(len(KEYS)):
                    yield ("keys", k1, k2, size)

    def describe(self, spec):
        if spec[0] == "keys":
            return "map of %d fillers, key a = %s, key b = %s" % (2 * spec[3], KEYS[spec[1]][0], KEYS[spec[2]][0])
        return "subject=%s%s ops=%s in_function=%s aliases_taken_after=%d" % (spec[0], list(spec[1]) or "", ["%s via %s" % o for o in spec[2]], spec[3], spec[4] if len(spec) > 4 else 0)

    def build(self, spec):
        if spec[0] == "keys":
            src, want = key_program(spec[1], spec[2], spec[3])
            return [{"src": src, "step_limit": 3000000}], ("ok", want, None)
        stmts = program(spec[0], spec[1], spec[2], spec[3], spec[4] if len(spec) > 4 else 0)
        src, _ = L.render(stmts)
        try:
            exp = L.Interp().run(stmts)[:3]
        except L.Unsupported as u:
            exp = ("unsupported", str(u), None)
        return [{"src": src, "step_limit": 500000}], exp

    def judge(self, spec, exp, rs):
        r = rs[0]
        cls, out, ecls = exp
        if cls != "ok":
            v = Verdict(False, False, "reference", "reference did not evaluate its own scenario: %s %s %s" % (cls, out[-300:], ecls))
            v.extra["machinery"] = True
            return v
        if r.get("class") == "ok" and r.get("out") == out:
            return Verdict(True, spec[0] == "keys" or len(spec[2]) > 0, "ok")
        exp_l, got_l = out.split("\n"), r.get("out", "").split("\n")
        k = next((i for i, (a, b) in enumerate(zip(exp_l, got_l)) if a != b), min(len(exp_l), len(got_l)))
        v = Verdict(False, True, "mismatch", "first difference at output line %d: expected %r got %r; class=%s err=%r %s" % (
            k, exp_l[k] if k < len(exp_l) else None, got_l[k] if k < len(got_l) else None, r.get("class"), r.get("err", "")[-200:], r.get("panic") or ""))
        if spec[0] == "list":
            aa = spec[4] if len(spec) > 4 else 0
            g = grew(len(spec[1]), spec[2], aa)
            # observe() prints 6 lines; block b (0 = before any operation) starts at line 6*b (+ op! lines, at most one per op)
            if g is not None and k >= 6 * g and r.get("class") in ("ok", "runtime_error") and not (r.get("panic")):
                bad = (exp_l[k] if k < len(exp_l) else "").split(" ")[0]
                if bad in ("eq", "key", "idx", "has", "reg", "idx!") or r.get("class") == "runtime_error":
                    v.finding = "KF-C10-list-growth"
                    v.extra["shape"] = "%s@%d" % (bad, k)
        return v


def main(tier):
    t0 = time.time()
    chk = C10()
    chk.rule = ("subjects: lists of length 3/4/5/8, a map, an instance; all sequences of <= L operations (L=2 quick, 4 thorough; alias choices rotated instead of multiplied out beyond 2 (lists) / 3 (map, instance) operations) from 7 list / 4 map / 2 instance operations, each through "
                "every one of 4 aliases (L=3: 4 alias rotations), at module level and inside a function; 5 observation lines after every step (identity through 7 aliases, keyed lookups, "
                "has/index in list and tuple containers, contents) and once more after the keyed map was grown. non-trivial = history with at least one operation")
    merged = explore(chk, tier, cap_s=(1500 if tier == "thorough" else 200))
    return report.finish(chk, tier, merged, t0)
