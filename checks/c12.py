"""C12 — the peephole optimiser never changes what a function does.

(a) windows: every instruction sequence up to a length bound over the alphabet
    the rules mention (two operands each, neutral context, labels at every
    position) that satisfies the compiler invariants the optimiser relies on goes
    through the real peephole_optimize (hook H5); input and output are executed by
    the symbolic stack machine (mc/src/ssm.rs) from the entry and from every
    label and must emit the same stores/calls/effects/control transfers with the
    same stack snapshots and leave the same stack; cache-slot structure and the
    line of every output instruction are checked too.
(b) real streams: for every corpus program, every (input, output) pair of
    peephole_compile is recorded and validated the same way (and the compiler
    invariants are checked on the inputs).
(c) rule mask: every corpus program runs with each single rule disabled and with
    all rules disabled; the observation must equal the optimised run.
"""
import json, os, subprocess, time
from vlib.engine import Check, Verdict, explore
from vlib import report, corpus, runner as R

RULES = {"DROP": 1, "INVOKE": 2, "SUPER_INVOKE": 4, "SET_GET_LOCAL": 8, "SET_GET_BOX": 16, "SET_GET_CAPTURE": 32,
         "SET_GET_MOD_SYM": 64, "LOAD_LOCAL": 128, "LOAD_MOD_SYM": 256, "LOAD_BOX": 512, "LOAD_CAPTURE": 1024, "DEAD_CODE": 2048}
ALL = 4095


def windows(max_len, reduced_len, nshards=16, tiny_len=0):
    procs = []
    for sh in range(nshards):
        procs.append(subprocess.Popen([R.BIN["checked"], "windows", str(max_len), str(sh), str(nshards), str(reduced_len), str(tiny_len)],
                                      stdout=subprocess.PIPE, stderr=subprocess.DEVNULL))
    tot = {"windows": 0, "rewritten": 0, "skipped_by_invariant": 0, "bad_count": 0, "bad": [], "samples": [], "alphabet": 0}
    ok = True
    for p in procs:
        out, _ = p.communicate()
        if p.returncode != 0:
            ok = False
            continue
        d = json.loads(out)
        for k in ("windows", "rewritten", "skipped_by_invariant", "bad_count"):
            tot[k] += d[k]
        tot["bad"] += d["bad"]
        tot["samples"] += d["samples"]
        tot["alphabet"] = d["alphabet"]
    return ok, tot


class C12(Check):
    id = "C12"
    level = "exploration"
    rule = ""
    assumptions = ["windows are restricted to the compiler invariants the optimiser relies on: `Call n`, n>0, directly preceded by "
                   "ArgumentDelimiter; property instructions followed by their cache slot; at most 255 consecutive Drop (255 locals per function); "
                   "each invariant is itself checked on every real pre-optimisation stream",
                   "the fused instructions are defined in the algebra as property-get on the receiver + call; that the VM agrees is what (c) checks",
                   "DEAD_CODE is not masked in (c): leaving unreachable code changes the compiler's linear stack accounting, which is not part of the property"]

    def __init__(self, progs):
        self.progs = progs

    def gen(self, tier):
        for i in range(len(self.progs)):
            yield i

    def describe(self, spec):
        return "corpus " + self.progs[spec][0]

    def build(self, i):
        name, files, entry = self.progs[i]
        base = {"files": files, "entry": entry, "step_limit": 3000000}
        cases = [dict(base, peephole=True)]
        for rname, bit in RULES.items():
            if rname == "DEAD_CODE":
                continue
            cases.append(dict(base, mask=bit))
        cases.append(dict(base, mask=ALL & ~RULES["DEAD_CODE"]))
        return cases, None

    def judge(self, i, ctx, rs):
        ref = rs[0]
        pe = ref.get("peephole") or {}
        extra = {"real_functions": pe.get("functions", 0), "real_functions_rewritten": pe.get("rewritten", 0)}
        if pe.get("bad"):
            return Verdict(False, True, "real-stream", "optimiser output of a real compilation fails validation: %s" % pe["bad"][0][:600], extra=extra)
        names = [n for n in RULES if n != "DEAD_CODE"] + ["ALL"]
        for n, r in zip(names, rs[1:]):
            if R.obs_key(r) != R.obs_key(ref):
                return Verdict(False, True, "mask:" + n, "disabling rule %s changes behaviour: optimised class=%s out=%r err=%r | masked class=%s out=%r err=%r %s" % (
                    n, ref.get("class"), ref.get("out", "")[-200:], ref.get("err", "")[-200:], r.get("class"), r.get("out", "")[-200:], r.get("err", "")[-200:], r.get("panic") or ""), extra=extra)
        return Verdict(True, pe.get("rewritten", 0) > 0, "ok:" + str(ref.get("class")), extra=extra)


def main(tier):
    t0 = time.time()
    th = tier == "thorough"
    ok, w = windows(5 if th else 4, 6 if th else 5, tiny_len=(8 if th else 6))
    if not ok:
        print("MACHINERY: window explorer failed")
        return 2
    progs = corpus.rich() + corpus.fixtures()
    try:
        from vlib import spaces
        progs += spaces.small_programs(tier)
    except ImportError:
        pass
    chk = C12(progs)
    chk.rule = ("(a) all windows of length <= %d over a %d symbol alphabet (+ length <= %d over its 24 symbol core, + length <= %d over a 13 symbol core with one trigger of every rule, a jump, its label and a return, + consecutive-drop family) "
                "satisfying the compiler invariants, through the real optimiser and the symbolic stack machine; (b) recorded real optimiser "
                "runs of every corpus program; (c) corpus programs with each of 11 rules masked and all masked. non-trivial = corpus program "
                "with at least one function the optimiser rewrote (windows rewritten are reported separately)" % (5 if th else 4, w["alphabet"], 6 if th else 5, 8 if th else 6))
    merged = explore(chk, tier, cap_s=900)
    extra_v = []
    if w["bad_count"]:
        d = os.path.join(report.ROOT, "replays", "C12")
        os.makedirs(d, exist_ok=True)
        for k, b in enumerate(w["bad"][:8]):
            path = os.path.join(d, "window_%d.json" % k)
            json.dump(b, open(path, "w"), indent=1)
            extra_v.append(({"spec": "window " + b["window"], "reason": b["why"][:600]}, path))
    merged["evaluations"] += w["windows"]
    merged["samples"] = (w["samples"][:2] + merged["samples"])[:4]
    cov = {"windows": w["windows"], "windows_rewritten": w["rewritten"], "windows_outside_invariants": w["skipped_by_invariant"],
           "window_mismatches": w["bad_count"]}
    return report.finish(chk, tier, merged, t0, coverage_extra=cov, extra_violations=extra_v)
