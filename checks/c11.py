"""C11 — built-in collections, strings and iterators behave as their mathematical models.

Per receiver type all operation sequences of length <= L on one receiver, every
operation instantiated with every argument of a boundary set
{0, 1, len-1, len, -1, -len, -len-1, 1.5, nil, 'x'} and values {1, 'a', nil};
after each operation the result (or the error class) and the receiver are printed.
Iterator pipelines: source x <= K adaptors x terminal with pure/printing/raising
callbacks. Oracle: the reference models of vlib/layref_lib.py (Python list / association
list / tuple / str / lazy generators with the conventions of DESIGN.md appendix A).
"""
import itertools, time
from vlib.engine import Check, Verdict, explore
from vlib import report, layref as L, runner as R


def N(x):
    return ["num", x]


def S(x):
    return ["str", x]


NIL = ["nil"]
R_ = ["var", "r"]


def lit(v):
    if isinstance(v, list):
        return ["list", [lit(x) for x in v]]
    if isinstance(v, tuple):
        return ["tuple", [lit(x) for x in v]]
    if isinstance(v, dict):
        return ["map", [(lit(k), lit(x)) for k, x in v.items()]]
    if isinstance(v, str):
        return S(v)
    if v is None:
        return NIL
    return N(v)


def idxs(n):
    raw = [0, 1, n - 1, n, -1, -n, -n - 1, 1.5]
    out = []
    for x in raw:
        if x not in out:
            out.append(x)
    return [N(x) for x in out] + [NIL, S("x")]


def inv(name, *args):
    return ["invoke", R_, name, list(args)]


ASC = ["lambda", ["a", "b"], ["invoke", ["var", "Number"], "cmp", [["var", "a"], ["var", "b"]]], True]


def list_ops(n):
    ops = [inv("len"), inv("pop"), inv("clear"), inv("rev"), inv("str"), inv("sort", ASC), ["invoke", inv("iter"), "list", []],
           inv("push", N(1)), inv("push", S("a"), NIL), inv("push")]
    for v in (N(1), S("a"), NIL):
        ops += [inv("has", v), inv("index", v)]
    for i in idxs(n):
        ops += [inv("insert", i, S("v")), inv("remove", i), inv("slice", i), ["index", R_, i], ["indexset", R_, i, S("w")]]
        for j in (N(0), N(n), N(-1), N(1.5)):
            ops.append(inv("slice", i, j))
    return ops


def tuple_ops(n):
    ops = [inv("len"), inv("str"), ["invoke", inv("iter"), "list", []]]
    for v in (N(1), S("a"), NIL):
        ops += [inv("has", v), inv("index", v)]
    for i in idxs(n):
        ops += [inv("slice", i), ["index", R_, i]]
        for j in (N(0), N(n), N(-1), N(1.5)):
            ops.append(inv("slice", i, j))
    return ops


def map_ops():
    keys = [N(1), S("a"), NIL, N(1.5), ["bool", True], S("zz")]
    ops = [inv("len"), ["invoke", inv("iter"), "len", []]]
    for k in keys:
        ops += [inv("get", k), inv("has", k), inv("remove", k), inv("set", k, S("s")), inv("insert", k, N(9)), ["index", R_, k], ["indexset", R_, k, S("w")]]
    return ops


def str_ops(n):
    ops = [inv("len"), inv("str"), inv("trim"), inv("trimStart"), inv("trimEnd"), inv("upCase"), inv("downCase"), ["invoke", inv("iter"), "list", []]]
    for v in (S(""), S("a"), S("é"), S("lo"), S("日"), S("zz"), N(1), NIL):
        ops += [inv("has", v), ["invoke", inv("split", v), "list", []]]
    for i in idxs(n):
        ops += [inv("slice", i), ["index", R_, i]]
        for j in (N(0), N(n), N(-1), N(1.5), N(2)):
            ops.append(inv("slice", i, j))
    return ops


def num_ops():
    ops = [inv("floor"), inv("ceil"), inv("round"), inv("str"), ["invoke", ["invoke", inv("times"), "take", [N(3)]], "list", []],
           ["invoke", ["var", "Number"], "parse", [inv("str")]]]
    for b in (N(0), N(3), N(2.5), N(-1), NIL, S("x")):
        ops.append(["invoke", ["invoke", inv("until", b), "take", [N(4)]], "list", []])
        ops.append(["invoke", ["var", "Number"], "cmp", [R_, b]])
        for st in (N(1), N(0.5), N(0), N(-1), NIL):
            ops.append(["invoke", ["invoke", inv("until", b, st), "take", [N(4)]], "list", []])
    return ops


RECEIVERS = {
    "list": [[], [1], [1, 2, 3], [1, 2, 3, 4], [1, "a", None, 1, 5]],
    "tuple": [(), (1,), (1, "a", None), (1, 2, 3, 1)],
    "map": [{}, {1: "one"}, {1: "one", "a": 2, None: 3}],
    "str": ["", "a", "abc", "héllo", "日本語", "a😀b", "  a b  ", "a,b,,c"],
    "num": [0, 1, 3, 2.5, -1, -0.5, 1e21, 0.5, 1.5, -2.5],
}
PARSE = ["1.5", " 2", "abc", "1e3", "-0", "inf", "NaN", "+5", ".5", "5.", "0x10", "", "1_000", "--1", "1e", "١"]


def step(k, expr):
    tag = str(k)
    return ["try", [["print", [S(tag), expr]]], "e", None, [["print", [S(tag + "!"), ["invoke", ["invoke", ["var", "e"], "cls", []], "name", []]]]]]


def show(kind):
    if kind == "map":
        # printing order of a map is address dependent: show size and probes instead
        return ["print", [S("s"), inv("len"), inv("get", N(1)), inv("get", S("a")), inv("get", NIL), inv("get", N(1.5)), inv("get", ["bool", True]), inv("get", S("zz"))]]
    return ["print", [S("s"), R_]]


# ---- iterator pipelines -------------------------------------------------------------
SOURCES = [lit([1, 2, 3]), lit([]), lit((4, 5)), S("ab"), ["invoke", N(3), "times", []], ["invoke", N(1), "until", [N(4)]], ["invoke", S("x,y"), "split", [S(",")]], lit({1: 2})]
CB_PURE = ["lambda", ["x"], ["bin", "==", ["var", "x"], ["var", "x"]], True]
PRN = ["lambda", ["x"], [["print", [S("cb"), ["var", "x"]]], ["return", ["var", "x"]]], False]
RAISE2 = ["lambda", ["x"], [["expr", ["assign", "cnt", ["bin", "+", ["var", "cnt"], N(1)]]], ["if", ["bin", "==", ["var", "cnt"], N(2)], [["raise", ["call", ["var", "Error"], [S("second")]]]], None], ["return", ["var", "x"]]], False]
MUT = ["lambda", ["x"], [["expr", ["invoke", ["var", "side"], "push", [["var", "x"]]]], ["return", ["bool", True]]], False]
ADAPT = [("map", [PRN]), ("map", [RAISE2]), ("filter", [PRN]), ("filter", [MUT]), ("filter", [["lambda", ["x"], ["bin", "!=", ["var", "x"], N(2)], True]]),
         ("take", [N(2)]), ("take", [N(0)]), ("take", [N(-1)]), ("take", [N(1.5)]), ("skip", [N(1)]), ("skip", [N(5)]), ("skip", [N(-1)]), ("skip", [N(1.5)]),
         ("zip", [["invoke", lit(["p", "q"]), "iter", []]]), ("zip", []), ("chain", [["invoke", lit([9]), "iter", []]]), ("chain", []), ("iter", [])]
TERMS = [("list", []), ("len", []), ("first", []), ("last", []), ("all", [PRN]), ("any", [PRN]), ("each", [PRN]), ("reduce", [lit([]), ["lambda", ["a", "x"], [["expr", ["invoke", ["var", "a"], "push", [["var", "x"]]]], ["return", ["var", "a"]]], False]]),
         ("into", [["get", ["var", "List"], "collect"]]), ("into", [["get", ["var", "Tuple"], "collect"]]), ("next_current", []), ("for", [])]


def pipeline(src, adaptors, term):
    it = ["invoke", src, "iter", []]
    for name, args in adaptors:
        it = ["invoke", it, name, list(args)]
    pre = [["let", "cnt", N(0)], ["let", "side", ["list", []]], ["let", "it", NIL]]
    tname, targs = term
    if tname == "next_current":
        # current() is only observed after a successful next(): what it yields before the first / after the last element is a convention, not part of the property
        body = [["expr", ["assign", "it", it]]]
        for k in range(4):
            body.append(["let", "n%d" % k, ["invoke", ["var", "it"], "next", []]])
            body.append(["print", [S("n"), ["var", "n%d" % k], ["tern", ["var", "n%d" % k], ["invoke", ["var", "it"], "current", []], S("-")]]])
    elif tname == "for":
        body = [["for", "v", it, [["print", [S("v"), ["var", "v"]]]]]]
    else:
        body = [["print", [S("t"), ["invoke", it, tname, list(targs)]]]]
    return pre + [["try", body, "e", None, [["print", [S("!"), ["invoke", ["invoke", ["var", "e"], "cls", []], "name", []],
                                                    ["tern", ["bin", "==", ["invoke", ["invoke", ["var", "e"], "cls", []], "name", []], S("Error")], ["get", ["var", "e"], "message"], S("-")]]]]],
                  ["print", [S("side"), ["var", "side"], ["var", "cnt"]]]]


# ---- size dependent behaviour: lists whose length crosses the thresholds at which library algorithms switch (sorting, growth)
BIG_SIZES = [0, 1, 2, 3, 7, 8, 9, 16, 17, 20, 31, 32, 33, 34, 50, 63, 64, 65, 100, 200, 257]
BIG_MODS = [1, 2, 5, 0]  # number of distinct keys (0 = all distinct)


def fmt_num(x):
    return str(int(x)) if x == int(x) else repr(x)


def fmt_list(xs):
    return "[" + ", ".join(fmt_num(x) for x in xs) + "]"


def big_program(n, m):
    """records [key, index] with many ties: a stable sort keeps the indices of equal keys in their original order"""
    mod = m or max(n, 1)
    keys = [(i * 7 + 3) % mod for i in range(n)]
    src = ("let l = [];\nfor i in %d.times() { let k = i * 7 + 3; l.push([k - (k / %d).floor() * %d, i]); }\n" % (n, mod, mod) +
           "let up = l.sort(|a, b| a[0] - b[0]);\nprint(up.iter().map(|r| r[1]).list());\n"
           "let down = l.sort(|a, b| b[0] - a[0]);\nprint(down.iter().map(|r| r[1]).list());\n"
           "let same = l.sort(|a, b| 0);\nprint(same.iter().map(|r| r[1]).list());\n"
           "print(l.iter().map(|r| r[1]).list());\n"
           "let ks = l.iter().map(|r| r[0]).list();\nprint(ks.sort(|a, b| a - b));\nprint(ks.rev());\nprint(ks.slice(%d), ks.slice(-%d).len());\n"
           "print(ks.has(%d), ks.index(%d), ks.iter().reduce(0, |a, x| a + x), ks.len());\n" % (n // 2, min(n, 3), mod + 1, keys[-1] if keys else 0))
    idx = list(range(n))
    up = sorted(idx, key=lambda i: keys[i])
    down = sorted(idx, key=lambda i: -keys[i])
    last_key = keys[-1] if keys else 0
    exp = [fmt_list(up), fmt_list(down), fmt_list(idx), fmt_list(idx), fmt_list(sorted(keys)), fmt_list(keys[::-1]),
           "%s %d" % (fmt_list(keys[n // 2:]), min(n, 3)),
           "false %s %s %d" % (str(keys.index(last_key)) if keys else "nil", fmt_num(sum(keys)), n)]
    return src, "\n".join(exp) + "\n"


# ---- maps whose size crosses the growth thresholds of the table (load factor 7/8 of 4, 8, 16 ... 512 buckets): keys that are equal
# by the language's `==` but differ in representation (0 and -0, 1 and 1.0, a computed and a literal number), keys of other kinds,
# absent keys; insert / count by iteration / remove / re-insert, then half of the entries removed (tombstones) and put back
MAP_SIZES = [0, 1, 3, 4, 6, 7, 8, 13, 14, 15, 27, 28, 29, 55, 56, 57, 111, 112, 113, 114, 223, 224, 225, 300, 449]
MAP_PROBES = [("0 * -1", 0.0), ("0", 0.0), ("1.0", 1.0), ("2 - 1", 1.0), ("N - 1", "last"), ("N", "n"), ("0.5", 0.5), ("0 - 1", -1.0),
              ("'0'", ("s", "0")), ("nil", ("nil",)), ("true", ("b", True)), ("N / 2", "half")]


def bigmap_program(n, pi):
    pe, pk = MAP_PROBES[pi]
    pe = pe.replace("N", str(n))
    k = {"last": float(n - 1), "n": float(n), "half": n / 2}.get(pk, pk) if isinstance(pk, str) else pk
    src = ("let m = {};\nfor i in %d.times() { m[i] = i * 2; }\nlet k = %s;\n" % (n, pe) +
           "print(m.len(), m.has(k), m.get(k));\n"
           "print(m.insert(k, 'v'), m.len(), m.get(k), m.has(k));\n"
           "let c = 0; for kv in m { if kv[0] == k { c = c + 1; } } print(c);\n"
           "print(m.remove(k), m.len(), m.has(k), m.get(k));\n"
           "m[k] = 'w'; print(m.len(), m[k]);\n"
           "for i in %d.times() { if i - (i / 2).floor() * 2 == 1 { m.remove(i); } }\n"
           "print(m.len(), m.has(k), m.get(k));\n"
           "for i in %d.times() { m[i] = i; }\n"
           "print(m.len(), m.has(k), m.get(k), m.has(0), m.get(0 * -1));\n" % (n, n))
    fv = lambda v: "nil" if v is None else (fmt_num(v) if isinstance(v, (int, float)) else v)
    fb = lambda b: "true" if b else "false"
    m = {float(i): i * 2 for i in range(n)}
    out = ["%d %s %s" % (len(m), fb(k in m), fv(m.get(k)))]
    old = m.get(k); m[k] = "v"
    out.append("%s %d v true" % (fv(old), len(m)))
    out.append("1")
    m.pop(k)
    out.append("v %d false nil" % len(m))
    m[k] = "w"
    out.append("%d w" % len(m))
    for i in range(n):
        if i % 2 == 1:
            m.pop(float(i))     # the probe, when it is an odd key of the range, goes with them
    out.append("%d %s %s" % (len(m), fb(k in m), fv(m.get(k))))
    for i in range(n):
        m[float(i)] = i
    out.append("%d %s %s %s %s" % (len(m), fb(k in m), fv(m.get(k)), fb(0.0 in m), fv(m.get(0.0))))
    return src, "\n".join(out) + "\n"


# ---- lists produced by the library (not by a literal) are full citizens: every producer, also with an empty result, then mutated
PRODUCERS = [("[]", []), ("[1, 2]", [1, 2]), ("[].iter().list()", []), ("[1, 2].iter().list()", [1, 2]), ("0.times().list()", []), ("3.times().list()", [0, 1, 2]),
             ("[].iter().into(List.collect)", []), ("[5].iter().into(List.collect)", [5]), ("[1, 2].iter().filter(|x| x > 5).list()", []), ("[1, 2, 3].iter().filter(|x| x > 1).list()", [2, 3]),
             ("[1, 2].iter().map(|x| x * 2).list()", [2, 4]), ("[].iter().map(|x| x).list()", []), ("[1, 2, 3].slice(1)", [2, 3]), ("[1, 2].slice(2)", []), ("[].slice(0)", []),
             ("[3, 1, 2].sort(|a, b| a - b)", [1, 2, 3]), ("[].sort(|a, b| a - b)", []), ("[1, 2].rev()", [2, 1]), ("[].rev()", []), ("[1, 2, 3].iter().skip(3).list()", []),
             ("[1, 2, 3].iter().take(0).list()", []), ("[1, 2].iter().zip([].iter()).list()", []), ("[].iter().chain([].iter()).list()", []), ("[1].iter().chain([2].iter()).list()", [1, 2]),
             ("(|| { let c = [1, 2]; c.clear(); return c; })()", []), ("(|| { let c = [1]; c.pop(); return c; })()", []), ("(7, 8).iter().list()", [7, 8]), ("().iter().list()", []),
             ("{}.iter().list()", []), ("''.iter().list()", [])]
MUTS = ["push1", "push3", "insert0", "insertend", "pop", "remove0", "clear"]


def produced_program(pi, muts):
    expr, model = PRODUCERS[pi]
    model = list(model)
    src = ["let l = %s;" % expr, "let alias = l;", "print(l, l.len());"]
    out = ["%s %d" % (fmt_list(model), len(model))]
    for k, mname in enumerate(muts):
        v = 100 + k
        if mname == "push1":
            src.append("l.push(%d);" % v); model.append(v)
        elif mname == "push3":
            src.append("l.push(%d, %d, %d);" % (v, v + 10, v + 20)); model += [v, v + 10, v + 20]
        elif mname == "insert0":
            src.append("l.insert(0, %d);" % v); model.insert(0, v)
        elif mname == "insertend":
            src.append("l.insert(l.len(), %d);" % v); model.append(v)
        elif mname == "pop":
            src.append("print('pop', l.pop());"); out.append("pop %s" % (fmt_num(model.pop()) if model else "nil"))
        elif mname == "remove0":
            if model:
                src.append("print('rm', l.remove(0));"); out.append("rm %s" % fmt_num(model.pop(0)))
            else:
                src.append("try { l.remove(0); } catch e { print('rm!', e.cls().name()); }"); out.append("rm! IndexError")
        else:
            src.append("l.clear();"); model = []
        src.append("print(l, l.len(), l == alias);")
        out.append("%s %d true" % (fmt_list(model), len(model)))
    return "\n".join(src) + "\n", "\n".join(out) + "\n"


class C11(Check):
    id = "C11"
    level = "exploration"
    rule = ""
    assumptions = ["reference models in vlib/layref_lib.py follow the conventions of DESIGN.md appendix A (observed behaviour where the documentation is silent)",
                   "map contents are observed through len/get probes (printing order is address dependent)",
                   "sort is only exercised with a total-order comparator"]

    def gen(self, tier):
        L_ = 3 if tier == "thorough" else 2
        for kind, recvs in RECEIVERS.items():
            for r in recvs:
                n = len(r) if not isinstance(r, (int, float)) else 0
                ops = {"list": list_ops, "tuple": tuple_ops, "str": str_ops}.get(kind, None)
                ops = ops(n) if ops else (map_ops() if kind == "map" else num_ops())
                for ln in range(1, L_ + 1):
                    if ln == 3:
                        sub = ops[::3]
                        for seq in itertools.product(range(len(sub)), repeat=3):
                            yield ("ops", kind, r if not isinstance(r, dict) else tuple(r.items()), tuple(sub[i] is not None and ops.index(sub[i]) for i in seq))
                    else:
                        for seq in itertools.product(range(len(ops)), repeat=ln):
                            yield ("ops", kind, r if not isinstance(r, dict) else tuple(r.items()), seq)
        for p in PARSE:
            yield ("parse", p)
        for n in BIG_SIZES:
            for m in BIG_MODS:
                yield ("big", n, m)
        for n in MAP_SIZES:
            for pi in range(len(MAP_PROBES)):
                yield ("bigmap", n, pi)
        for pi in range(len(PRODUCERS)):
            for k in range(1, 4):
                for muts in itertools.product(MUTS, repeat=k):
                    if k == 3 and tier != "thorough" and muts[0] not in ("push1", "insert0"):
                        continue
                    yield ("produced", pi, muts)
        K = 3 if tier == "thorough" else 2
        for si in range(len(SOURCES)):
            for k in range(0, K + 1):
                pool = range(len(ADAPT)) if k <= 2 else range(0, len(ADAPT), 2)
                for ad in itertools.product(pool, repeat=k):
                    for ti in range(len(TERMS)):
                        if TERMS[ti][0] == "len" and any(ADAPT[i][1] and ADAPT[i][1][0] in (PRN, RAISE2, MUT) for i in ad):
                            continue  # whether len() runs the callbacks of a sized pipeline is not defined by the property
                        yield ("pipe", si, ad, ti)

    def ast(self, spec):
        if spec[0] == "ops":
            _, kind, r, seq = spec
            rv = dict(r) if kind == "map" else r
            n = len(rv) if not isinstance(rv, (int, float)) else 0
            ops = {"list": list_ops, "tuple": tuple_ops, "str": str_ops}.get(kind, None)
            ops = ops(n) if ops else (map_ops() if kind == "map" else num_ops())
            stmts = [["let", "r", lit(rv)]]
            for k, i in enumerate(seq):
                stmts.append(step(k + 1, ops[i]))
                stmts.append(show(kind))
            return stmts
        if spec[0] == "parse":
            return [step(1, ["invoke", ["var", "Number"], "parse", [S(spec[1])]])]
        _, si, ad, ti = spec
        return pipeline(SOURCES[si], [ADAPT[i] for i in ad], TERMS[ti])

    def describe(self, spec):
        if spec[0] == "big":
            return "list of %d records with %s distinct keys: stable sorts, rev, slice, has/index, reduce" % (spec[1], spec[2] or "all")
        if spec[0] == "bigmap":
            return "map of %d number keys probed with the key %s: get/has/insert/count/remove/re-insert, half removed and put back" % (spec[1], MAP_PROBES[spec[2]][0])
        if spec[0] == "produced":
            return "list produced by %s then %s" % (PRODUCERS[spec[1]][0], list(spec[2]))
        return L.render(self.ast(spec))[0].replace("\n", " ")[:500]

    def build(self, spec):
        if spec[0] in ("big", "produced", "bigmap"):
            src, want = {"big": big_program, "produced": produced_program, "bigmap": bigmap_program}[spec[0]](spec[1], spec[2])
            return [{"src": src, "step_limit": 3000000}], ("ok", want, None)
        stmts = self.ast(spec)
        src, _ = L.render(stmts)
        try:
            it = L.Interp()
            exp = it.run(stmts)[:3]
        except L.Unsupported as u:
            exp = ("unsupported", str(u), None)
        return [{"src": src, "step_limit": 500000}], exp

    def judge(self, spec, exp, rs):
        r = rs[0]
        cls, out, ecls = exp
        if cls == "unsupported":
            return Verdict(True, False, "unsupported-by-reference")
        ok = r.get("class") == cls and r.get("out") == out
        if ok and cls == "runtime_error":
            last = r.get("err", "").strip().split("\n")[-1]
            ok = last.startswith(str(ecls) + ":")
        if not ok:
            v = Verdict(False, True, "mismatch", "expected class=%s%s out=%r; got class=%s out=%r err=%r %s" % (
                cls, "(%s)" % ecls if ecls else "", out, r.get("class"), r.get("out"), r.get("err", "")[-160:], r.get("panic") or ""))
            v.finding = attribute(spec, exp, r, None if spec[0] in ("big", "produced", "bigmap") else self.ast(spec))
            return v
        return Verdict(True, True, "%s:%s" % (spec[0], cls))


def attribute(spec, exp, r, stmts):
    return None


def main(tier):
    t0 = time.time()
    chk = C11()
    chk.rule = ("(ops) per receiver (5 lists, 4 tuples, 3 maps, 8 strings incl. multi-byte, 10 numbers) all sequences of <= 2 operations (thorough: + length 3 over "
                "every third operation) from the full operation x boundary-argument table; (parse) Number.parse inputs; (pipe) 8 sources x all sequences of <= 2 "
                "(thorough 3) adaptors from 18 x 12 terminals with printing/raising/mutating callbacks. oracle = reference models. non-trivial = every case (each "
                "calls at least one built-in)")
    merged = explore(chk, tier, cap_s=(1700 if tier == "thorough" else 220))
    return report.finish(chk, tier, merged, t0)
