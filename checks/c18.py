"""C18 — errors are reported faithfully: class, message, call chain and exit status.

Call chains of depth 1..D over frame kinds {fn, method, initialiser, static method, named
lambda, callback run by a native iterator, function of another module}; raise sites
{raise Error(msg), raise with an inner error, raise of a user subclass, VM runtime error,
native error}; three line layouts (one statement per line; comment lines inserted above every statement;
noise in front of every statement: string literals with raw line breaks, list literals and
interpolations spanning lines, blank lines), optionally a try with a non-matching catch
clause around the call in an intermediate frame; caught in every frame of the chain or not at
all. Uncaught: stderr traceback (frames innermost first with function and line, then
"Class: message") and failing status. Caught: e.message, e.inner.message, the class, and
every e.backTrace entry (frames from the raise to the catching frame). exit(n) family.
Oracle: reference call chain with the printer's own line numbers (vlib/layref.py).
Natives that run callbacks from a frame of their own (each, reduce) appear as 'native:0 in name()' frames and are compared
too; inside such callbacks another frame-using native (print, each) is called first.
"""
import itertools, re, time
from vlib.engine import Check, Verdict, explore
from vlib import report, layref as L

def N(x): return ["num", x]
def S(x): return ["str", x]
def V(x): return ["var", x]
def call(f, *a): return ["call", V(f) if isinstance(f, str) else f, list(a)]
def inv(o, m, *a): return ["invoke", o, m, list(a)]

KINDS = ["fn", "method", "init", "static", "lambda", "callback", "cbreduce", "module"]
SITES = ["raise", "raise_inner", "raise_sub", "vm", "native"]


def site_stmts(site):
    if site == "raise":
        return [["raise", call("Error", S("boom"))]]
    if site == "raise_inner":
        return [["let", "cause", call("Error", S("cause"))], ["raise", call("Error", S("outer"), V("cause"))]]
    if site == "raise_sub":
        return [["raise", call("MyErr", S("sub"))]]
    if site == "vm":
        return [["let", "bad", ["bin", "+", N(1), ["nil"]]]]
    return [["let", "bad", inv(V("Number"), "parse", S("zz"))]]


def handler(tag):
    e = V("e")
    name = inv(inv(e, "cls"), "name")
    user = ["or", ["bin", "==", name, S("Error")], ["bin", "==", name, S("MyErr")]]
    return [["print", [S(tag), name, ["tern", user, ["get", e, "message"], S("-")]]],
            ["if", ["and", user, ["bin", "!=", ["get", e, "inner"], ["nil"]]], [["print", [S("inner"), ["get", ["get", e, "inner"], "message"], inv(["get", ["get", e, "inner"], "backTrace"], "len")]]], None],
            ["for", "bt", ["get", e, "backTrace"], [["print", [S("bt"), V("bt")]]]]]


def build(chain, site, catch_at, nonmatch=None):
    """chain[0] is called from the script; chain[-1] contains the raise site. catch_at: index of the frame that catches (-1 = script, None = uncaught)"""
    main = [["class", "MyErr", "Error", []], ["class", "OtherErr", "Error", []]]
    other = []
    n = len(chain)

    def wrap(k, body):
        if nonmatch == k:
            body = [["try", body, "nm", "OtherErr", [["print", [S("wrong handler")]]]], ["print", [S("not reached")]]]
        if catch_at == k:
            return [["try", body, "e", None, handler("caught%d" % k)], ["print", [S("after%d" % k)]]]
        return body
    # build from the innermost outwards: `invoke_k` is the statement list that calls frame k
    for k in range(n - 1, -1, -1):
        kind = chain[k]
        inner_call = calls[k + 1] if k + 1 < n else None
        body = [["let", "pad%d" % k, N(k)]] + (site_stmts(site) if k == n - 1 else wrap(k, inner_call)) if True else None
        if k == n - 1 and catch_at == k:
            body = [["let", "pad%d" % k, N(k)], ["try", site_stmts(site), "e", None, handler("caught%d" % k)], ["print", [S("after%d" % k)]]]
        body = body + [["return", N(k)]]
        if kind == "fn":
            main.append(["fn", "f%d" % k, [], body])
            c = [["expr", call("f%d" % k)]]
        elif kind == "method":
            main.append(["class", "K%d" % k, None, [("method", "m%d" % k, [], body)]])
            c = [["expr", inv(call("K%d" % k), "m%d" % k)]]
        elif kind == "init":
            main.append(["class", "I%d" % k, None, [("method", "init", [], body[:-1])]])
            c = [["let", "inst%d" % k, call("I%d" % k)]]
        elif kind == "static":
            main.append(["class", "S%d" % k, None, [("static", "s%d" % k, [], body)]])
            c = [["expr", inv(V("S%d" % k), "s%d" % k)]]
        elif kind == "lambda":
            main.append(["let", "lam%d" % k, ["lambda", [], body, False]])
            c = [["expr", call("lam%d" % k)]]
        elif kind == "callback":
            # the callback first calls another native that uses a frame of its own (print), then goes on: the frame of each() must keep its name
            main.append(["fn", "cb%d" % k, [], [["expr", inv(inv(["list", [N(1)]], "iter"), "each", ["lambda", ["x"], [["print", [S("in each"), N(k)]]] + body, False])], ["return", N(k)]]])
            c = [["expr", call("cb%d" % k)]]
        elif kind == "cbreduce":
            main.append(["fn", "cr%d" % k, [], [["expr", inv(inv(["list", [N(1)]], "iter"), "reduce", N(0), ["lambda", ["a", "x"], [["expr", inv(inv(["list", [N(2)]], "iter"), "each", ["lambda", ["z"], [["return", V("z")]], False])]] + body, False])],
                                               ["return", N(k)]]])
            c = [["expr", call("cr%d" % k)]]
        else:  # module
            other.append(["export", ["fn", "mod%d" % k, [], body]])
            # called through the module object from main, directly from another function of that module
            c = [["expr", inv(V("other"), "mod%d" % k)]] if (k == 0 or chain[k - 1] != "module") else [["expr", call("mod%d" % k)]]
        calls[k] = c
    return main, other


calls = {}


def scenario(chain, site, catch_at, nonmatch=None):
    calls.clear()
    # functions of the other module can only call things defined in that module: keep `module` frames innermost-contiguous
    main, other = build(chain, site, catch_at, nonmatch)
    top = calls[0]
    if catch_at == -1:
        top = [["try", top, "e", None, handler("caught-1")], ["print", [S("after-1")]]]
    files = {}
    prog = []
    if other:
        prog.append(["import", "import self.other", {"path": ["self", "other"], "alias": None, "symbols": None}])
        files["/v/other.lay"] = [["class", "MyErr", "Error", []], ["class", "OtherErr", "Error", []]] + other
    prog += main + [["print", [S("start")]]] + top + [["print", [S("end")]]]
    files["/v/main.lay"] = prog
    return files


def valid(chain):
    # a frame of the other module calls the next frame directly, which must then also live in that module
    seen_mod = False
    for k in chain:
        if seen_mod and k != "module":
            return False
        if k == "module":
            seen_mod = True
    return True


TB = re.compile(r"^  (\S+):(\d+) in (.+)$")
BT = re.compile(r"^bt (\S+):(\d+) in (.+)$")


def parse_traceback(err):
    lines = err.strip().split("\n")
    frames = []
    for l in lines:
        m = TB.match(l)
        if m:
            frames.append((m.group(1), int(m.group(2)), m.group(3)))
    return frames, (lines[-1] if lines else "")


EXITS = [0, 1, 2, 3, 255]
EXIT_CTX = ["module", "fn", "method", "nested_fn", "in_try", "after_output", "in_loop", "in_init", "in_callback", "in_lazy_callback", "in_nested_callback", "in_callback_try"]


def exit_program(n, ctx):
    ex = ["expr", call("exit", N(n))]
    pre = [["print", [S("pending"), N(n)]]]
    if ctx == "module":
        return pre + [ex, ["print", [S("never")]]]
    if ctx == "fn":
        return pre + [["fn", "f", [], [ex, ["return", N(1)]]], ["expr", call("f")], ["print", [S("never")]]]
    if ctx == "method":
        return pre + [["class", "K", None, [("method", "m", [], [ex, ["return", N(1)]])]], ["expr", inv(call("K"), "m")], ["print", [S("never")]]]
    if ctx == "nested_fn":
        return pre + [["fn", "g", [], [ex, ["return", N(1)]]], ["fn", "f", [], [["print", [S("in f")]], ["return", call("g")]]], ["expr", call("f")], ["print", [S("never")]]]
    if ctx == "in_try":
        return pre + [["try", [ex], "e", None, [["print", [S("caught?!")]]]], ["print", [S("never")]]]
    if ctx == "after_output":
        return pre + [["for", "i", inv(N(3), "times"), [["print", [S("line"), V("i")]]]], ex]
    if ctx == "in_loop":
        return pre + [["for", "i", inv(N(3), "times"), [["print", [S("line"), V("i")]], ["if", ["bin", "==", V("i"), N(1)], [ex], None]]], ["print", [S("never")]]]
    if ctx == "in_callback":  # run by a native that has a frame of its own
        return pre + [["expr", inv(inv(["list", [N(1), N(2)]], "iter"), "each", ["lambda", ["x"], [["print", [S("cb"), V("x")]], ex], False])], ["print", [S("never")]]]
    if ctx == "in_lazy_callback":  # run by a frameless native driving a lazy iterator
        return pre + [["print", [inv(inv(inv(["list", [N(1), N(2)]], "iter"), "map", ["lambda", ["x"], [["print", [S("cb"), V("x")]], ex, ["return", V("x")]], False]), "list")]], ["print", [S("never")]]]
    if ctx == "in_nested_callback":
        return pre + [["fn", "g", ["y"], [ex, ["return", N(1)]]],
                      ["expr", inv(inv(["list", [N(1)]], "iter"), "each", ["lambda", ["x"], [["expr", inv(inv(["list", [N(2)]], "iter"), "each", ["lambda", ["y"], [["expr", call("g", V("y"))]], False])]], False])], ["print", [S("never")]]]
    if ctx == "in_callback_try":
        return pre + [["try", [["expr", inv(inv(["list", [N(1)]], "iter"), "each", ["lambda", ["x"], [["try", [ex], "e1", None, [["print", [S("caught?!")]]]]], False])]], "e2", None, [["print", [S("caught outside?!")]]]], ["print", [S("never")]]]
    return pre + [["class", "K", None, [("method", "init", [], [ex])]], ["let", "k", call("K")], ["print", [S("never")]]]


class C18(Check):
    id = "C18"
    level = "exploration"
    rule = ""
    assumptions = ["every call and raise is printed on a single line (the line reported for a statement spanning several lines is not defined by the property)",
                   "frames of natives are part of the expected chain (each, reduce); VM/native error messages are not compared",
                   "exit(n) is compared for n in {0, 1, 2, 3, 255}; other arguments are not defined by the property"]

    def gen(self, tier):
        D = 4 if tier == "thorough" else 3
        for d in range(1, D + 1):
            kinds = (KINDS if d <= 2 or tier == "thorough" else [k for k in KINDS if k != "static"]) if d <= 3 else ["fn", "method", "init", "lambda", "callback", "cbreduce", "module"]
            for chain in itertools.product(kinds, repeat=d):
                if not valid(chain):
                    continue
                for site in (SITES if d <= 2 or tier == "thorough" else ["raise", "raise_inner", "vm"]):
                    for catch_at in [None, -1] + list(range(d)):
                        if catch_at is not None and catch_at >= 0 and chain[catch_at] == "module" and False:
                            continue
                        for lay in ("min", "comments", "noisy"):
                            yield ("chain", chain, site, catch_at, lay)
                        # a try whose catch clause does NOT match sits around the call in one intermediate frame: the error passes it untouched
                        if catch_at in (None, -1) and d >= 2:
                            for nm in range(d - 1):
                                yield ("chain", chain, site, catch_at, "min", nm)
        for n in EXITS:
            for ctx in EXIT_CTX:
                yield ("exit", n, ctx)

    def describe(self, spec):
        if spec[0] == "exit":
            return "exit(%d) in %s" % (spec[1], spec[2])
        return "chain=%s site=%s catch_at=%s layout=%s nonmatching_catch_in_frame=%s" % (list(spec[1]), spec[2], spec[3], spec[4], spec[5] if len(spec) > 5 else None)

    def build(self, spec):
        if spec[0] == "exit":
            stmts = exit_program(spec[1], spec[2])
            src, lines = L.render(stmts)
            files_ast, srcs, spans = {"/v/main.lay": stmts}, {"/v/main.lay": src}, {}
        else:
            files_ast = scenario(spec[1], spec[2], spec[3], spec[5] if len(spec) > 5 else None)
            srcs, lines, spans = {}, {}, {}
            for p, st in files_ast.items():
                src, ln, sp = L.render_spans(st, spec[4])
                srcs[p] = src
                lines.update(ln)
                for a, b in sp.items():
                    spans[(p, a)] = b
        try:
            it = L.Interp(files=files_ast, lines=lines)
            cls, out, ecls, einst = it.run(files_ast["/v/main.lay"])
            chain = None
            msg = None
            if cls == "runtime_error":
                chain = [(p, ln, "script" if nm == "script" else nm + "()") for nm, ln, p in einst.fields.get("_chain", [])]
                msg = None if einst.fields.get("_vm") else einst.fields.get("message")
            exp = (cls, out, ecls, chain, msg, spans)
        except L.Unsupported as u:
            exp = ("unsupported", str(u), None, None, None, {})
        return [{"files": srcs, "entry": "/v/main.lay", "step_limit": 300000}], exp

    def judge(self, spec, exp, rs):
        r = rs[0]
        cls, out, ecls, chain, msg, spans = exp

        def frame_ok(want, got):
            # a statement printed over several lines (a call with a block lambda argument) may be reported at any of its lines
            (p, ln, nm), (gp, gln, gnm) = want, got
            return p == gp and nm == gnm and ln is not None and ln <= gln <= spans.get((p, ln), ln)

        def line_ok(a, b):
            if a == b:
                return True
            ma, mb = BT.match(a), BT.match(b)
            return bool(ma and mb and frame_ok((ma.group(1), int(ma.group(2)), ma.group(3)), (mb.group(1), int(mb.group(2)), mb.group(3))))
        if cls == "unsupported":
            v = Verdict(False, False, "reference", "reference cannot evaluate: " + out)
            v.extra["machinery"] = True
            return v
        if cls == "exit":
            want_cls = "ok" if ecls == 0 else "runtime_error"
            if r.get("class") != want_cls or r.get("code") != ecls or r.get("out") != out or r.get("err", "").strip():
                return Verdict(False, True, "exit", "exit(%d): expected status %d, stdout %r, empty stderr; got class=%s code=%s out=%r err=%r %s" % (
                    ecls, ecls, out, r.get("class"), r.get("code"), r.get("out"), r.get("err", "")[-200:], r.get("panic") or ""))
            return Verdict(True, True, "exit")
        exp_l, got_l = out.split("\n"), r.get("out", "").split("\n")
        if r.get("class") != cls or len(exp_l) != len(got_l) or not all(line_ok(a, b) for a, b in zip(exp_l, got_l)):
            k = next((i for i, (a, b) in enumerate(zip(exp_l, got_l)) if not line_ok(a, b)), min(len(exp_l), len(got_l)))
            return Verdict(False, True, "stdout", "expected class=%s, first difference at stdout line %d: expected %r got %r; got class=%s err=%r %s" % (
                cls, k, exp_l[k] if k < len(exp_l) else None, got_l[k] if k < len(got_l) else None, r.get("class"), r.get("err", "")[-300:], r.get("panic") or ""))
        if cls == "runtime_error":
            if r.get("code") != 1:
                return Verdict(False, True, "status", "uncaught error must end with a failing status 1, got %s" % r.get("code"))
            frames, last = parse_traceback(r.get("err", ""))
            if len(frames) != len(chain) or not all(frame_ok(w, g) for w, g in zip(chain, frames)):
                return Verdict(False, True, "traceback", "traceback frames differ: expected %s got %s" % (chain, frames))
            want = ecls + ": " + msg if msg is not None else ecls + ":"
            if not (last == want if msg is not None else last.startswith(want)):
                return Verdict(False, True, "summary", "traceback summary line: expected %r got %r" % (want, last))
        return Verdict(True, True, cls)


def main(tier):
    t0 = time.time()
    chk = C18()
    chk.rule = ("all call chains of depth 1..D (D=3 quick, 4 thorough) over 7 frame kinds (module frames contiguous and innermost) x raise sites (5; 3 for depth 3 in quick) x catch position "
                "{uncaught, script, every frame} x 2 line layouts; exit(n) for n in {0,1,2,3,255} x 12 contexts (incl. callbacks run by natives). non-trivial = every scenario")
    merged = explore(chk, tier, cap_s=(1500 if tier == "thorough" else 200))
    return report.finish(chk, tier, merged, t0)
