"""C15 — the front end is total.

Bounded-exhaustive input families (DESIGN.md C15): all token sequences up to a
length bound over one lexeme per token kind; every single-token deletion /
duplication / adjacent swap / replacement and every byte-prefix of valid
programs; boundary-count families. Each input is (1) compiled only, (2) run,
(3) imported as a module by a one line importer, (4) fed to the REPL between a definition and a probe.
Oracle: the front end ends in `ok` or `compile_error`; a compile error comes with
diagnostics and executes nothing; the REPL survives a line that fails to compile.
"""
import itertools, os, re, sys, time, glob
from vlib.engine import Check, Verdict, explore
from vlib import report

LEX = ["(", ")", "{", "}", "[", "]", ",", ".", "-", "+", "?", ":", ";", "|", "/", "*", "+=", "-=", "/=", "*=",
       "->", "<-", "export", "import", "as", "&", "!", "!=", "=", "==", ">", ">=", "<", "<=", "x", "@f", "'a'",
       "'a${x}b'", "1", "&&", "class", "else", "false", "for", "fn", "if", "in", "nil", "||", "return", "break",
       "continue", "super", "self", "static", "true", "let", "while", "try", "catch", "raise", "trait", "type",
       "chan", "launch", "'unterminated", "#", "'a${", "\"", "1.5e", "print", "std", "A"]
REDUCED = ["(", ")", "{", "}", "[", "]", ",", ".", "-", "=", ";", "|", ":", "<-", "x", "'a'", "'a${x}b'", "1",
           "class", "fn", "if", "else", "for", "in", "let", "while", "try", "catch", "raise", "return", "break",
           "self", "super", "launch", "chan", "import", "export", "'a${", "print", "A"]
REPLACERS = ["(", "}", ";", "=", "x", "'a${", "class", "fn", "return", "1", ".", "|"]

TOK = re.compile(r"\s+|//[^\n]*|'(?:[^'\\]|\\.)*'|\"(?:[^\"\\]|\\.)*\"|\d+(?:\.\d+)?|@?[A-Za-z_][A-Za-z_0-9]*\??|->|<-|[+\-*/!=<>]=|&&|\|\||.", re.S)

SMALL_CORPUS = [
    "print('s'); let a = 1; let b = a + 2 * 3; print(b);",
    "print('s'); fn f(a, b) { if a > b { return a; } else { return b; } } print(f(1, 2));",
    "print('s'); class A { init(x) { self.x = x; } get() { @x } } class B : A { get() { super.get() + 1 } } print(B(1).get());",
    "print('s'); let l = [1, 2, 3]; for i in l { if i == 2 { continue; } print(i); } let m = {'a': 1}; print(m['a']);",
    "print('s'); let i = 0; while i < 3 { i += 1; if i == 2 { break; } } print(i);",
    "print('s'); try { raise Error('x'); } catch e: Error { print(e.message); }",
    "print('s'); let c = chan(1); fn w(c) { c <- 1; } launch w(c); print(<- c);",
    "print('s'); let f = |x| x * 2; let g = |x| { return f(x) + 1; }; print(g(2), \"v ${f(1)} w\");",
    "print('s'); let t = (1, 2); print(t[0] > 0 ? 'y' : 'n', nil || 1 && 2);",
    "print('s'); import std.math; export let z = 1; print(z);",
    "print('s'); class S { static make() { S() } } trait T { a: number } type N = number | string; let s: S = S.make(); print(s != nil);",
]


# character level: every character sequence up to a length bound over an alphabet of the characters the scanner treats
# specially (quotes, backslash, interpolation, escapes, digits/exponent, comment, line ends, NUL) and characters of 2 and 4
# bytes, placed bare and inside each lexical context that scans character by character
CHARS = ["'", '"', "\\", "$", "{", "}", "\u00e9", "\U0001F600", "\n", "n", "u", "1", "a", "/", "*", " ", ".", "e", "\r", "\t", "\x00", "@", "-", "x"]
CHAR_CTX = [("bare", "%s"), ("sq", "'%s'"), ("dq", '"%s"'), ("interp", "'a${%s}b'"), ("comment", "// %s\n1;"), ("number", "1%s"), ("ident", "let v%s = 1;"),
            # the input ends inside the construct
            ("sq_open", "let s = '%s"), ("dq_open", 'let s = "%s'), ("interp_open", "let s = 'a${%s"), ("comment_open", "1; // %s"), ("str_in_call_open", "print('%s")]


# structural: every nesting of containers up to a depth bound around every leaf statement (which statement is legal where:
# break/continue and loops, return and functions, self/super/@ and classes, export/import and the module level, declarations in blocks)
NEST = [("while", "while c { %s }"), ("for", "for i#D in [1] { %s }"), ("fn", "fn f#D() { %s }"), ("lambda", "let l#D = || { %s };"),
        ("method", "class A#D { m() { %s } }"), ("init", "class B#D { init() { %s } }"), ("static", "class C#D { static s() { %s } }"),
        ("if", "if c { %s }"), ("else", "if c {} else { %s }"), ("try", "try { %s } catch e#D {}"), ("catch", "try {} catch e#D { %s }")]
LEAVES = ["break;", "continue;", "return;", "return 1;", "raise Error('x');", "self;", "super.m();", "@x;", "export let q = 1;",
          "import std.math;", "let a = 1;", "print(1);", "class Z {}", "fn z() {}", "trait T { a: number }", "type N = number;",
          "launch print(1);", "<- ch;", "|| { break; };", "let g = || continue;", "let h = || { return 2; };"]

# scoping: every binder form referring to its own name, in every context, with and without an outer declaration of that name
SELF_REF = ["let n = n;", "let n = || n;", "let n = [n];", "let n = n + 1;", "for n in n {}", "for n in [n] {}", "for n in n.iter() { print(n); }",
            "try {} catch n: n {}", "try { raise Error('a'); } catch n: n { print(n); }", "try {} catch n { let n = 1; }", "fn n(n) { n }",
            "fn f(n, n) {}", "class n : n {}", "class n { n() { n } }", "let n = 1; let n = 2;", "let f = |n| n; f(n);", "let f = |n, n| n;",
            "for n in [1] { let n = n; }", "for n in [1] { for n in [n] { print(n); } }", "n = 1;", "n += 1;", "print(n);", "let n = n = 1;",
            "fn g() { n } let n = 1;", "let n = 1; fn g() { let n = n; }"]
SCOPE_CTX = [("module", "%s"), ("fn", "fn ctx() { %s } ctx();"), ("lambda", "let ctx = || { %s }; ctx();"), ("method", "class Ctx { m() { %s } } Ctx().m();"),
             ("for", "for q in [1] { %s }"), ("catch", "try { raise Error('c'); } catch ce { %s }"), ("if", "if true { %s }"), ("fn_in_fn", "fn o() { fn ctx() { %s } ctx(); } o();")]
SCOPE_OUTER = [("none", "%s"), ("module", "let n = [Error];\n%s"), ("local", "fn outer() { let n = [Error]; %s } outer();")]

# every syntactic position that holds an expression x every kind of name the resolver has to look at x every context:
# the resolver and the compiler must agree on which positions exist (a position only one of them visits is a panic or an unseen name)
EXPR_POS = ["%s;", "let p = %s;", "print(%s);", "let p = [%s];", "let p = [1, %s];", "let p = (%s, 1);", "let p = {%s: 1};", "let p = {1: %s};", "let p = [1][%s];",
            "let p = 'a${%s}b';", "let p = -%s;", "let p = !%s;", "let p = 1 + %s;", "let p = %s + 1;", "let p = true && %s;", "let p = false || %s;", "let p = true ? %s : 2;",
            "let p = false ? 1 : %s;", "let p = %s ? 1 : 2;", "if %s { }", "while %s { break; }", "for it in %s { }", "let p = chan(%s);", "let ch0 = chan(1); ch0 <- %s;",
            "let p = <- %s;", "launch %s();", "fn la(a) {} launch la(%s);", "fn ca(a) {} ca(%s);", "let p = %s();", "let p = %s.str();", "let p = %s.name;", "let p = [0]; p[%s] = 1;",
            "let p = [0]; p[0] = %s;", "class Pf { init() { self.f = %s; } } Pf();", "class Pg { init() { self.f = 1; } } Pg().f = %s;", "let p = 1; p = %s;", "let p = 1; p += %s;",
            "try { raise %s; } catch pe { }", "try { } catch pe: %s { }", "class Ps : %s {}", "let p = || %s;", "let p = |a| { return %s; };", "let p = [1].iter().map(|a| %s).list();",
            "let p = %s.a.b;", "let p = (%s);", "let p = [%s, %s];", "let p = %s == %s;", "let p: %s = 1;"]
EXPR_ATOMS = ["n", "zz", "Number", "self", "(|| n)()", "[n][0]", "n.str()", "@f", "super.m()", "print", "1"]
EXPR_CTX = [("module", "let n = 2;\n%s"), ("fn_local", "fn ctx() { let n = 2; %s } ctx();"), ("param", "fn ctx(n) { %s } ctx(2);"), ("lambda_capture", "fn ctx() { let n = 2; let l = || { %s }; l(); } ctx();"),
            ("lambda_param_capture", "fn ctx(n) { return || { %s }; } ctx(2)();"), ("method", "class Ctx { init() { self.f = 3; } m(n) { %s } } Ctx().m(2);"),
            ("method_lambda", "class Ctx { init() { self.f = 3; } m(n) { let l = || { %s }; l(); } } Ctx().m(2);"), ("nested_fn", "fn o() { let n = 2; fn ctx() { %s } ctx(); } o();"),
            ("loop_body", "for n in [2] { %s }"), ("catch_body", "try { raise Error('c'); } catch n { %s }"), ("none", "%s")]


def nest_source(path, leaf):
    body = leaf
    for d, kind in reversed(list(enumerate(path))):
        body = dict(NEST)[kind].replace("#D", str(d)) % body
    return "let c = false; let ch = chan(1); " + body


def tokens(src):
    return [t for t in TOK.findall(src)]


def fixtures(limit_bytes=1500):
    base = "/repo/laythe_vm/fixture/language"
    out = []
    for p in sorted(glob.glob(base + "/**/*.lay", recursive=True)):
        try:
            s = open(p, encoding="utf8").read()
        except Exception:
            continue
        if len(s) <= limit_bytes and "import self" not in s and "while true" not in s:
            out.append(s)
    return out


def far_programs(n):
    B = "nil;" * n
    L = "[" + ",".join("7" for _ in range(n)) + "]"
    return [
        ("far_if", "let x = 1; if x == 2 { " + B + " x = 7; } print(x);", "1\n"),
        ("far_else", "let x = 1; if x == 1 { x = 2; } else { " + B + " x = 7; } print(x);", "2\n"),
        ("far_then", "let x = 1; if x == 1 { x = 2; " + B + " x = 3; } else { x = 7; } print(x);", "3\n"),
        ("far_while", "let x = 0; while x < 1 { x = x + 1; " + B + " } print(x);", "1\n"),
        ("far_for", "let x = 0; for i in 1.times() { x = x + 1; " + B + " } print(x);", "1\n"),
        ("far_break", "let x = 0; while true { x = x + 1; if x == 1 { break; } " + B + " x = 7; } print(x);", "1\n"),
        ("far_continue", "let x = 0; while x < 1 { x = x + 1; if x == 1 { continue; } " + B + " x = 7; } print(x);", "1\n"),
        ("far_try", "let x = 0; try { " + B + " raise Error('e'); } catch e { x = 1; } print(x);", "1\n"),
        ("far_try_done", "let x = 0; try { x = 1; } catch e { " + B + " x = 7; } print(x);", "1\n"),
        ("far_catch_clause", "class A : Error {} let x = 0; try { raise Error('e'); } catch e: A { " + B + " x = 7; } catch e { x = 2; } print(x);", "2\n"),
        ("far_catch_exit", "class A : Error {} let x = 0; try { raise A('e'); } catch e: A { x = 1; " + B + " } catch e { x = 7; } print(x);", "1\n"),
        ("far_and", "print(false && " + L + ".len());", "false\n"),
        ("far_or", "print(true || " + L + ".len());", "true\n"),
        ("far_ternary", "print(true ? 1 : " + L + ".len());", "1\n"),
        ("far_ternary_else", "print(false ? " + L + ".len() : 2);", "2\n"),
        ("far_fn_if", "fn f(x) { if x == 2 { " + B + " x = 7; } return x; } print(f(1));", "1\n"),
        ("far_fn_try", "fn f() { let x = 0; try { " + B + " raise Error('e'); } catch e { x = 1; } return x; } print(f());", "1\n"),
    ]


# bound:<name> (digits stripped) -> the output the text must produce if the front end accepts it
FAR_EXPECT = {"bound:" + nm: exp for nm, _src, exp in far_programs(1)}


def boundary_family(thorough):
    out = []
    depths = [1, 2, 3, 8, 32, 64, 128, 200, 255, 256] if not thorough else list(range(1, 257))
    for d in depths:
        out.append(("paren%d" % d, "print(" + "(" * d + "1" + ")" * d + ");"))
        out.append(("list%d" % d, "print(" + "[" * d + "1" + "]" * d + ");"))
        out.append(("map%d" % d, "let m = " + "{1:" * d + "1" + "}" * d + ";"))
        out.append(("block%d" % d, "{" * d + "print(1);" + "}" * d))
        out.append(("if%d" % d, "if true {" * d + "print(1);" + "}" * d))
        out.append(("fn%d" % d, "fn f(){" * d + "}" * d))
        out.append(("lambda%d" % d, "let f = " + "||" * d + "1;"))
        out.append(("unary%d" % d, "print(" + "-" * d + "1);"))
        out.append(("not%d" % d, "print(" + "!" * d + "true);"))
        out.append(("tern%d" % d, "print(" + "true ? " * d + "1" + " : 0" * d + ");"))
        out.append(("call%d" % d, "fn f(){ f } print(f" + "()" * d + ");"))
        out.append(("index%d" % d, "let l = [nil]; l[0] = l; print(l" + "[0]" * d + " == l);"))
        out.append(("interp%d" % d, "print(" + "'a${" * d + "1" + "}'" * d + ");"))
        out.append(("try%d" % d, "try {" * d + "print(1);" + "} catch e {}" * d))
        out.append(("while%d" % d, "let i = 0; " + "while i < 1 {" * d + "i += 1;" + "}" * d))
        out.append(("class%d" % d, "class A {} " + " ".join("class A%d : A%s {}" % (i + 1, i if i else "") for i in range(d))))
        out.append(("unbal_open%d" % d, "(" * d))
        out.append(("unbal_brace%d" % d, "{" * d))
        out.append(("unbal_close%d" % d, ")" * d))
        out.append(("binary%d" % d, "print(1" + " + 1" * d + ");"))
        out.append(("and%d" % d, "print(true" + " && true" * d + ");"))
        out.append(("dot%d" % d, "class A { init() { self.a = self; } } print(A()" + ".a" * d + " != nil);"))
    for n in (254, 255, 256, 257, 300):
        out.append(("locals%d" % n, "fn f() { " + "".join("let v%d = %d; " % (i, i) for i in range(n)) + "return v0; } print(f());"))
        out.append(("modlets%d" % n, "".join("let v%d = %d; " % (i, i) for i in range(n)) + "print(v0);"))
        out.append(("params%d" % n, "fn f(" + ",".join("p%d" % i for i in range(n)) + ") { return p0; } print(1);"))
        out.append(("args%d" % n, "fn f() {} f(" + ",".join("1" for i in range(n)) + ");"))
        out.append(("captures%d" % n, "fn f() { " + "".join("let v%d = %d; " % (i, i) for i in range(n)) + "return || " + "+".join("v%d" % i for i in range(n)) + "; } print(f()());"))
        out.append(("fields%d" % n, "class A { init() { " + "".join("self.f%d = %d; " % (i, i) for i in range(n)) + "} } print(A().f0);"))
        out.append(("methods%d" % n, "class A { " + "".join("m%d() { %d } " % (i, i) for i in range(n)) + "} print(A().m0());"))
        out.append(("listlit%d" % n, "print([" + ",".join("1" for i in range(n)) + "].len());"))
        out.append(("maplit%d" % n, "print({" + ",".join("%d:1" % i for i in range(n)) + "}.len());"))
        out.append(("interpseg%d" % n, "print('" + "".join("${1}" for i in range(n)) + "'.len());"))
        out.append(("blocklocals%d" % n, "fn f() { " + "{ let a = 1; " * n + "}" * n + " } print(1);"))
        out.append(("drops%d" % n, "fn f() { { " + "".join("let v%d = %d; " % (i, i) for i in range(n)) + "} return 1; } print(f());"))
        # the language has no bare blocks: the scopes that end with n locals are those of if / while / for / try / catch bodies
        decls = "".join("let v%d = %d; " % (i, i) for i in range(n))
        out.append(("ifdrops%d" % n, "if true { " + decls + "}\nprint(1);"))
        out.append(("ifdrops_use%d" % n, "if true { " + decls + "v0; }\nprint(1);"))
        out.append(("fnifdrops%d" % n, "fn f() { if true { " + decls + "} return 1; } print(f());"))
        out.append(("whiledrops%d" % n, "let i = 0; while i < 1 { " + decls + "i += 1; }\nprint(1);"))
        out.append(("fordrops%d" % n, "for i in 1.times() { " + decls + "}\nprint(1);"))
        out.append(("trydrops%d" % n, "try { " + decls + "} catch e { }\nprint(1);"))
        out.append(("catchdrops%d" % n, "fn f() { try { raise Error('x'); } catch e { " + decls + "} return 1; } print(f());"))
        out.append(("breakdrops%d" % n, "fn f() { while true { " + decls + "break; } return 1; } print(f());"))
        out.append(("elif%d" % n, "let x = 5; if x == 0 {}" + "".join(" else if x == %d {}" % i for i in range(n)) + " print(1);"))
    for n in (65534, 65535, 65536, 65537):
        if thorough or n in (65535, 65536):
            out.append(("consts%d" % n, "fn f() { return [" + ",".join(str(i) + ".5" for i in range(n)) + "]; } print(f().len());"))
            out.append(("jump%d" % n, "let x = 1; if x == 2 { " + "x = 1;" * (n // 5) + " } print(x);"))
    # one program per kind of relative transfer the encoder writes in 16 bits, with a span just below and just above 64 KiB:
    # whichever way the front end decides, a text it accepts has to run as written (FAR_EXPECT), a span it cannot encode has to be a diagnostic
    for n in ((32000, 32700, 32760, 32770, 32790, 33000) if thorough else (32700, 32790)):
        for nm, src, exp in far_programs(n):
            out.append(("%s%d" % (nm, n), src))
    big = 1 << 20
    out.append(("bigident", "let " + "a" * big + " = 1; print(1);"))
    out.append(("bigstring", "let s = '" + "a" * big + "'; print(s.len());"))
    out.append(("bignumber", "print(" + "9" * 400 + ");"))
    out.append(("bigcomment", "// " + "c" * big + "\nprint(1);"))
    out.append(("manylines", "\n" * 70000 + "print(1);"))
    for ln in (65533, 65534, 65535, 65536, 65537):
        out.append(("stmt_on_line%d" % ln, "\n" * (ln - 1) + "print(1);\nprint(2);\n"))
        out.append(("error_on_line%d" % ln, "\n" * (ln - 1) + "let = ;\n"))
    for nm in ("Object", "Class", "Error", "List", "Map", "String", "Number", "Bool", "Nil", "Iter", "Fun", "Module", "Tuple", "Channel", "Method", "Closure", "Native"):
        out.append(("class_named_%s" % nm, "class %s {}\nprint(1);" % nm))
        out.append(("class_named_%s_used" % nm, "class %s { m() { return 1; } }\nprint(%s().m());" % (nm, nm)))
        out.append(("fn_named_%s" % nm, "fn %s() { return 1; }\nprint(%s());" % (nm, nm)))
        out.append(("let_named_%s" % nm, "let %s = 1;\nprint(%s, [1].len(), 'a'.len());" % (nm, nm)))
    out.append(("bom", "﻿print(1);"))
    out.append(("nul", "print(1);\x00print(2);"))
    out.append(("crlf", "print(1);\r\nprint('a\r\nb');\r\n"))
    out.append(("unicode_ident", "let é = 1; print(é);"))
    out.append(("emoji", "print('😀'); let 😀 = 1;"))
    return out


class C15(Check):
    id = "C15"
    level = "exploration"
    horizon_ms = 20000
    rule = ("inputs: (seq) all token sequences up to the tier's length bound over one lexeme per token kind; (mut) every "
            "(chars) every character sequence of length <= 3 (<= 4 thorough for the bare/string/interpolation contexts) over a 24 character alphabet "
            "(quotes, backslash, $, braces, 2- and 4-byte characters, line ends, NUL, escape letters, digits, comment characters) in 7 lexical contexts; "
            "(exprpos) %d expression positions x %d kinds of name x %d contexts; (nest) every nesting of depth <= 3 (<= 4 thorough) over 11 containers (loops, functions, lambdas, methods, initialisers, statics, if/else, try/catch) "
            "around each of 21 leaf statements; (scope) 25 self-referring binder forms x 8 contexts x 3 outer declarations; "
            "single-token deletion, duplication, adjacent swap and replacement by each of %d lexemes, every byte prefix and "
            "every single-byte replacement by each of 7 bytes, of each corpus program; (bound) nesting/count boundary family. "
            "Each input: compile-only run, full run (step limit 200k), REPL session [definition, input, probe]. "
            "non-trivial = the input is rejected with diagnostics or accepted and executed (always), counted per distinct input"
            % (len(EXPR_POS), len(EXPR_ATOMS), len(EXPR_CTX), len(REPLACERS)))
    assumptions = ["front end reached through Vm::run / Vm::repl with harness Io; imports of user modules are not resolved (in-memory fs is empty)",
                   "runtime crashes of accepted inputs are C16's business and are not judged here",
                   "nesting families stop at depth 256 (property: bounded nesting)"]

    def gen(self, tier):
        th = tier == "thorough"
        # (seq)
        if th:
            for n in (1, 2, 3):
                for t in itertools.product(LEX, repeat=n):
                    yield ("seq", " ".join(t))
            for t in itertools.product(REDUCED[:24], repeat=4):
                yield ("seq", " ".join(t))
        else:
            for n in (1, 2):
                for t in itertools.product(LEX, repeat=n):
                    yield ("seq", " ".join(t))
            for t in itertools.product(REDUCED, repeat=3):
                yield ("seq", " ".join(t))
        # (chars)
        for ctx, tmpl in CHAR_CTX:
            top = 3 if not th else (4 if ctx in ("bare", "sq", "interp", "sq_open") else 3)
            for n in range(1, top + 1):
                for t in itertools.product(CHARS, repeat=n):
                    yield ("chars:" + ctx, tmpl % "".join(t))
        # (nest)
        for depth in range(1, (4 if th else 3) + 1):
            for path in itertools.product([k for k, _ in NEST], repeat=depth):
                for leaf in LEAVES:
                    yield ("nest", nest_source(path, leaf))
        # (scope)
        for _, outer in SCOPE_OUTER:
            for _, ctx in SCOPE_CTX:
                for body in SELF_REF:
                    yield ("scope", outer % (ctx % body))
        # (exprpos)
        for _, ctx in EXPR_CTX:
            for pos in EXPR_POS:
                for atom in EXPR_ATOMS:
                    yield ("exprpos", ctx % (pos.replace("%s", atom)))
        # (mut)
        corpus = list(SMALL_CORPUS)
        if th:
            corpus += fixtures()
        else:
            corpus = corpus[:11]
        for ci, src in enumerate(corpus):
            toks = tokens(src)
            idx = [i for i, t in enumerate(toks) if not t.isspace()]
            for i in idx:
                yield ("mut", "".join(toks[:i] + toks[i + 1:]))
                yield ("mut", "".join(toks[:i] + [toks[i], " ", toks[i]] + toks[i + 1:]))
                reps = REPLACERS if (th and ci < len(SMALL_CORPUS)) or not th else REPLACERS[:4]
                for r in reps:
                    if r != toks[i]:
                        yield ("mut", "".join(toks[:i] + [r] + toks[i + 1:]))
            for a, b in zip(idx, idx[1:]):
                t2 = list(toks)
                t2[a], t2[b] = t2[b], t2[a]
                yield ("mut", "".join(t2))
            if ci < len(SMALL_CORPUS):
                for k in range(len(src)):
                    yield ("mut", src[:k])
                if th or ci < 4:
                    for k in range(len(src)):
                        for byte in ("'", "$", "{", "\\", "\n", "\u0080", "\U0001F600"):
                            yield ("mut", src[:k] + byte + src[k + 1:])
        # (bound)
        for name, src in boundary_family(th):
            yield ("bound:" + name, src)

    def describe(self, spec):
        return "%s: %s" % (spec[0], spec[1][:300] + ("..." if len(spec[1]) > 300 else ""))

    def build(self, spec):
        kind, src = spec
        cases = [
            {"src": src, "compile_only": True},
            {"src": src, "step_limit": 200000},
        ]
        one_line = "\n" not in src and "\r" not in src and len(src) < 100000
        as_module = len(src) < 5000
        if as_module:
            # the same text as an imported module: a text that does not compile must end the importer with a failing status
            cases.append({"files": {"/v/main.lay": "print('importer'); import self.a; print('after');", "/v/a.lay": src}, "entry": "/v/main.lay", "step_limit": 200000})
        if one_line:
            cases.append({"repl": ["let v0 = 41;", src, "print(v0 + 1);"], "step_limit": 200000})
        return cases, (one_line, as_module)

    def judge(self, spec, flags, rs):
        one_line, as_module = flags
        co, full = rs[0], rs[1]
        imp = rs[2] if as_module else None
        rs = [rs[0], rs[1]] + (list(rs[3:]) if as_module else list(rs[2:]))
        c = co.get("class")
        if c not in ("ok", "compile_error"):
            return Verdict(False, True, "frontend-" + str(c),
                           "front end did not end in ok/compile_error: class=%s %s" % (c, co.get("panic") or co.get("signal") or ""))
        if c == "compile_error":
            if not co.get("err", "").strip():
                return Verdict(False, True, "no-diagnostic", "compile error status without any diagnostic on stderr")
            if co.get("out"):
                return Verdict(False, True, "executed", "compile-only run produced output")
            if full.get("class") != "compile_error" or full.get("out"):
                return Verdict(False, True, "executed-on-error",
                               "diagnostics were reported but the program was (partly) executed: class=%s out=%r" % (full.get("class"), full.get("out", "")[:80]))
            if imp is not None:
                if imp.get("class") == "ok" or imp.get("code") == 0 or "after" in imp.get("out", "") or not imp.get("err", "").strip():
                    return Verdict(False, True, "import-status", "a module that does not compile was imported and the program did not end with diagnostics and a failing status: class=%s code=%s out=%r" % (
                        imp.get("class"), imp.get("code"), imp.get("out", "")[:80]))
            if one_line:
                rp = rs[2]
                if rp.get("class") != "ok" or "42\n" not in rp.get("out", ""):
                    return Verdict(False, True, "repl-lost",
                                   "REPL did not survive a line that fails to compile: class=%s out=%r %s" % (rp.get("class"), rp.get("out", "")[-120:], rp.get("panic") or ""))
            return Verdict(True, True, "rejected")
        want = FAR_EXPECT.get(spec[0].rstrip("0123456789"))
        if want is not None and (full.get("class") != "ok" or full.get("out") != want):
            return Verdict(False, True, "accepted-not-runnable", "the text was accepted without a diagnostic but does not run as written: expected out=%r, got class=%s out=%r %s" % (
                want, full.get("class"), full.get("out", "")[:80], full.get("panic") or ""))
        # accepted by the front end: nothing more to check here (C16 owns runtime crashes)
        return Verdict(True, True, "accepted:" + str(full.get("class")), extra={"accepted": 1, "accepted_runtime_crash": 1 if full.get("class") in ("panic", "signal", "timeout") else 0})


def main(tier):
    t0 = time.time()
    chk = C15()
    merged = explore(chk, tier, cap_s=(1500 if tier == "thorough" else 240))
    return report.finish(chk, tier, merged, t0)
