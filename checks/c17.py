"""C17 — modules run once and expose exactly their exports.

All acyclic import graphs on main + up to 3 module files (one of them optionally in a
sub-directory, always together with its intermediate module file); per edge the import
form {whole module, renamed, selected symbols, selected + renamed}; multiplicity 1-2
(the second import of the same module uses another form); every order of the import
statements of main; every module prints a body marker, owns a counter that only its
exported function can reach, exports a let, a fn and a class and keeps a let and a fn
private; every importer calls the exported counter function of what it imports (shared
state between importers = run-once). Negative cases: non-exported names through both
forms, missing module, missing sub-module, missing intermediate module.
Oracle: reference module model (vlib/layref.py): run-once bodies, export tables.
"""
import itertools, time
from vlib.engine import Check, Verdict, explore
from vlib import report, layref as L

def N(x): return ["num", x]
def S(x): return ["str", x]
def V(x): return ["var", x]
def call(f, *a): return ["call", V(f) if isinstance(f, str) else f, list(a)]
def inv(o, m, *a): return ["invoke", o, m, list(a)]

FORMS = ["whole", "renamed", "selected", "selected_renamed"]
MODS = ["a", "b", "c", "d"]


def import_stmt(path, form, tag):
    """returns (statement, access) where access(name) is the expression reaching the module's exported `name`"""
    last = path[-1]
    text_path = ".".join(path)
    if form == "whole":
        st = ["import", "import %s" % text_path, {"path": path, "alias": None, "symbols": None}]
        return st, (lambda n: ["get", V(last), n])
    if form == "renamed":
        al = "M%s%s" % (last, tag)
        st = ["import", "import %s as %s" % (text_path, al), {"path": path, "alias": al, "symbols": None}]
        return st, (lambda n: ["get", V(al), n])
    names = ["bump_" + last, "val_" + last, "Cls_" + last]
    if form == "selected":
        st = ["import", "import %s:{%s}" % (text_path, ", ".join(names)), {"path": path, "alias": None, "symbols": [(n, None) for n in names]}]
        return st, (lambda n: V(n))
    al = {n: "%s_%s" % (n, tag) for n in names}
    st = ["import", "import %s:{%s}" % (text_path, ", ".join("%s as %s" % (n, al[n]) for n in names)), {"path": path, "alias": None, "symbols": [(n, al[n]) for n in names]}]
    return st, (lambda n: V(al[n]))


def use(access, who, mod):
    return [["print", [S("%s uses %s" % (who, mod)), call(access("bump_" + mod)), access("val_" + mod), inv(call(access("Cls_" + mod)), "who")]]]


def module_body(name, imports, subdir):
    """imports: list of (target module, form)"""
    body = [["print", [S(name + " body")]]]
    for k, (t, form) in enumerate(imports):
        st, acc = import_stmt(mod_path(t, subdir), form, "%s%d" % (name, k))
        body.append(st)
        body += use(acc, name, t)
    body += [["let", "cnt_" + name, N(0)], ["let", "priv_" + name, S("secret")], ["fn", "hidden_" + name, [], [["return", S("hidden")]]],
             ["export", ["fn", "bump_" + name, [], [["expr", ["assign", "cnt_" + name, ["bin", "+", V("cnt_" + name), N(1)]]], ["return", V("cnt_" + name)]]]],
             ["export", ["let", "val_" + name, S("val_" + name)]],
             ["export", ["class", "Cls_" + name, None, [("method", "who", [], [["return", ["bin", "+", S("Cls_" + name + ":"), V("priv_" + name)]]])]]],
             ["print", [S(name + " done")]]]
    return body


def mod_path(t, subdir):
    return ["self", "dir", t] if subdir == t else ["self", t]


def mod_file(t, subdir):
    return "/v/dir/%s.lay" % t if subdir == t else "/v/%s.lay" % t


def build_graph(nmods, edges, main_imports, subdir, negative):
    """edges: dict module -> list of (target, form) with target later in MODS order; main_imports: ordered list of (target, form)"""
    files = {}
    for m in MODS[:nmods]:
        files[mod_file(m, subdir)] = module_body(m, edges.get(m, []), subdir)
    if subdir:
        files["/v/dir.lay"] = [["print", [S("dir body")]], ["export", ["let", "dirval", S("dv")]]]
    main = [["print", [S("main start")]]]
    for k, (t, form) in enumerate(main_imports):
        st, acc = import_stmt(mod_path(t, subdir), form, "m%d" % k)
        main.append(st)
        main += use(acc, "main", t)
    apath = mod_path("a", subdir)
    neg_import = ["import", "import %s as Neg" % ".".join(apath), {"path": apath, "alias": "Neg", "symbols": None}]
    if negative == "priv_whole":
        main += [neg_import, ["print", [S("never"), ["get", V("Neg"), "priv_a"]]]]
    elif negative == "hidden_whole":
        main += [neg_import, ["print", [S("never"), inv(V("Neg"), "hidden_a")]]]
    elif negative == "priv_selected":
        main += [["import", "import %s:{priv_a}" % ".".join(apath), {"path": apath, "alias": None, "symbols": [("priv_a", None)]}], ["print", [S("never")]]]
    elif negative == "unknown_selected":
        main += [["import", "import %s:{bump_a as nb, nothere}" % ".".join(apath), {"path": apath, "alias": None, "symbols": [("bump_a", "nb"), ("nothere", None)]}], ["print", [S("never")]]]
    elif negative == "missing_module":
        main += [["import", "import self.ghost", {"path": ["self", "ghost"], "alias": None, "symbols": None}], ["print", [S("never")]]]
    elif negative == "missing_submodule":
        main += [["import", "import self.dir.ghost", {"path": ["self", "dir", "ghost"], "alias": None, "symbols": None}], ["print", [S("never")]]]
    elif negative == "cnt_unreachable":
        main += [neg_import, ["print", [S("never"), ["get", V("Neg"), "cnt_a"]]]]
    main.append(["print", [S("main end")]])
    files["/v/main.lay"] = main
    return files


def dags(nmods):
    """all edge sets among MODS[:nmods] with edges from earlier to later modules (acyclic by construction)"""
    pairs = [(MODS[i], MODS[j]) for i in range(nmods) for j in range(i + 1, nmods)]
    for mask in range(1 << len(pairs)):
        yield [p for k, p in enumerate(pairs) if mask & (1 << k)]


# ---- modules with the same name below different packages / directories: std.math, self.math, self.dir.math are three modules
SN_FILES = {
    "/v/math.lay": "print('user math body'); let n = 0; export fn abs(x) { n = n + 1; return 'user abs ' + n.str(); } export let tag = 'user';",
    "/v/dir.lay": "print('dir body'); export let dirval = 'dv';",
    "/v/dir/math.lay": "print('dir math body'); let k = 0; export fn abs(x) { k = k + 1; return 'dir abs ' + k.str(); } export let tag = 'dir';",
    "/v/geometry.lay": "print('geometry body'); import std.math as gm; export fn dist(a, b) { return gm.abs(a - b); }",
    "/v/ugeo.lay": "print('ugeo body'); import self.math as gm; export fn dist(a, b) { return gm.abs(a - b); }",
    "/v/dgeo.lay": "print('dgeo body'); import self.dir.math:{abs}; export fn dist(a, b) { return abs(a - b); }",
}
SN_IMPORTS = ["std", "user", "dir", "geometry", "ugeo", "dgeo", "std_sel", "user_sel", "dir_sel"]


def samename_program(seq):
    """returns (main source, expected stdout): every import is used right away; bodies run once, counters are shared"""
    src, out = ["print('main start');"], ["main start"]
    loaded = set()
    cnt = {"user": 0, "dir": 0}

    def load(m):
        if m in loaded:
            return
        if m == "dirpkg":
            out.append("dir body")
        elif m == "dir":
            load("dirpkg")
            out.append("dir math body")
        elif m == "user":
            out.append("user math body")
        elif m in ("geometry", "ugeo", "dgeo"):
            out.append(m + " body")
            load({"geometry": "std", "ugeo": "user", "dgeo": "dir"}[m])
        loaded.add(m)

    def call(m):
        if m == "std":
            return "7"
        cnt[m] += 1
        return "%s abs %d" % (m, cnt[m])
    for k, imp in enumerate(seq):
        if imp in ("std", "user", "dir"):
            path = {"std": "std.math", "user": "self.math", "dir": "self.dir.math"}[imp]
            src.append("import %s as m%d; print(m%d.abs(3 - 10));" % (path, k, k))
            load(imp)
            out.append(call(imp))
        elif imp.endswith("_sel"):
            base = imp[:-4]
            path = {"std": "std.math", "user": "self.math", "dir": "self.dir.math"}[base]
            src.append("import %s:{abs as a%d}; print(a%d(3 - 10));" % (path, k, k))
            load(base)
            out.append(call(base))
        else:
            src.append("import self.%s as g%d; print(g%d.dist(3, 10));" % (imp, k, k))
            load(imp)
            out.append(call({"geometry": "std", "ugeo": "user", "dgeo": "dir"}[imp]))
    src.append("print('main end');")
    out.append("main end")
    return "\n".join(src) + "\n", "\n".join(out) + "\n"


# ---- deep paths and modules named like packages: every path segment is a module of its own, loaded once, parents first; a user module
# called `std` or `math` is just a module below the program's package and must not take the place of a package
DP_FILES = {
    "/v/d1.lay": "print('d1 body'); export let x = 'd1';",
    "/v/d1/d2.lay": "print('d2 body'); export let x = 'd2';",
    "/v/d1/d2/m.lay": "print('m body'); let c = 0; export let x = 'm'; export fn bump() { c = c + 1; return c; }",
    "/v/d1/d2/d3.lay": "print('d3 body'); export let x = 'd3';",
    "/v/d1/d2/d3/n.lay": "print('n body'); export let x = 'n';",
    "/v/d1d2.lay": "print('d1d2 body'); export let x = 'd1d2';",       # names that are concatenations of other paths' segments
    "/v/d1/d2m.lay": "print('d2m body'); export let x = 'd2m';",
    "/v/std.lay": "print('user std body'); export let x = 'ustd';",
    "/v/math.lay": "print('user math body'); export let x = 'umath';",
}
DP_PATHS = {"d1": ["d1"], "d2": ["d1", "d2"], "m": ["d1", "d2", "m"], "m_sel": ["d1", "d2", "m"], "n": ["d1", "d2", "d3", "n"], "n_sel": ["d1", "d2", "d3", "n"],
            "d1d2": ["d1d2"], "d2m": ["d1", "d2m"], "ustd": ["std"], "umath": ["math"]}   # (`self` is a keyword: no module can be called that)
DP_IMPORTS = list(DP_PATHS) + ["stdmath"]
DP_BAD = ["d1.d2", "math.abs", "m.x"]   # no such package, whatever was imported before


def deep_program(seq, bad=None):
    src, out = ["print('main start');"], ["main start"]
    loaded = set()
    bumps = 0
    for k, imp in enumerate(seq):
        if imp == "stdmath":
            src.append("import std.math as k%d; print(k%d.abs(0 - 7));" % (k, k))
            out.append("7")
            continue
        path = DP_PATHS[imp]
        for j in range(1, len(path) + 1):
            if tuple(path[:j]) not in loaded:
                loaded.add(tuple(path[:j]))
                out.append({"std": "user std", "self": "user self", "math": "user math"}.get(path[j - 1], path[j - 1]) + " body")
        if imp.endswith("_sel"):
            src.append("import self.%s:{x as k%d}; print(k%d);" % (".".join(path), k, k))
            out.append(path[-1])
        else:
            src.append("import self.%s as k%d; print(k%d.x);" % (".".join(path), k, k))
            out.append({"std": "ustd", "self": "uself", "math": "umath"}.get(path[-1], path[-1]))
        if imp in ("m",):
            bumps += 1
            src.append("print(k%d.bump());" % k)
            out.append(str(bumps))
    if bad is not None:
        src.append("import %s as kb;" % bad)
        src.append("print('not reached');")
        return "\n".join(src) + "\n", ("runtime_error", "\n".join(out) + "\n", "ImportError")
    src.append("print('main end');")
    out.append("main end")
    return "\n".join(src) + "\n", ("ok", "\n".join(out) + "\n", None)


# ---- module bodies that use fibers and channels, imported by a program that has fibers of its own: the body still runs to its
# end, once, before the importer continues (the order in which other fibers print is the scheduler's business and is not compared)
MF_BODIES = {
    "plain": "let v = 42;",
    "launch_recv": "let c = chan(); fn produce(c) { c <- 42; } launch produce(c); let v = <- c;",
    "launch_recv_buf": "let c = chan(1); fn produce(c) { c <- 42; } launch produce(c); let v = <- c;",
    "buffered_self": "let c = chan(1); c <- 42; let v = <- c;",
    "two_rounds": "let c = chan(); let d = chan(); fn echo(c, d) { d <- (<- c) + 1; } launch echo(c, d); c <- 41; let v = <- d;",
    "launch_only": "fn side() { print('side ran'); } launch side(); let v = 42;",
}
MF_BLOCKING = ("launch_recv", "launch_recv_buf", "two_rounds")
MF_PRE = {"none": "", "helper": "fn helper() { print('helper'); }\nlaunch helper();\n", "two_helpers": "fn helper() { print('helper'); }\nlaunch helper();\nlaunch helper();\n",
          "helper_chan": "let hc = chan(1);\nfn helper(hc) { hc <- 'h'; }\nlaunch helper(hc);\n"}
MF_FORMS = {"whole": ("import self.m;", "m.val", "m.get()"), "renamed": ("import self.m as mm;", "mm.val", "mm.get()"), "selected": ("import self.m:{val, get};", "val", "get()")}


def modfiber_files(body, pre, form, twice):
    imp, val, get = MF_FORMS[form]
    m = "print('m start');\n%s\nexport let val = v;\nlet calls = 0;\nexport fn get() { calls = calls + 1; return [v, calls]; }\nprint('m end');\n" % MF_BODIES[body]
    main = MF_PRE[pre] + imp + "\nprint('main continues', %s, %s);\n" % (val, get)
    if twice:
        main += "fn later() { print('later', %s); }\nlater();\n" % get
    main += ("let hv = <- hc; print('helper value', hv);\n" if pre == "helper_chan" else "") + "print('main end');\n"
    return {"/v/main.lay": main, "/v/m.lay": m}


class C17(Check):
    id = "C17"
    level = "exploration"
    rule = ""
    assumptions = ["reference module model: a module body runs at its first import (intermediate directory modules first), exports are name -> module-level cell, a selected import copies the value, "
                   "a non-exported name is an error (PropertyError through the module object, ImportError for selected symbols), a missing module is an ImportError",
                   "sub-directory modules are always generated together with their intermediate module file dir.lay", "imports only at module level (the language rejects others); exported lets are not reassigned"]

    def gen(self, tier):
        th = tier == "thorough"
        for nmods in ((1, 2, 3, 4) if th else (1, 2, 3)):
            for es in dags(nmods):
                for subdir in (None, MODS[nmods - 1]):
                    # which modules main imports (non-empty subsets), in every order
                    for r in range(1, nmods + 1):
                        for targets in itertools.permutations(MODS[:nmods], r):
                            # (four modules, thorough only: all 64 DAGs and all ordered selections, forms rotated instead of multiplied out)
                            forms_main = itertools.product(FORMS, repeat=r) if ((th and nmods < 4) or r == 1) else [tuple(FORMS[(i + k) % 4] for k in range(r)) for i in range(4)]
                            for fm in forms_main:
                                eforms = [tuple(FORMS[(i + k) % 4] for k in range(len(es))) for i in (range(4) if es else [0])]
                                for ef in eforms:
                                    for dup in ((None,) if (not th or nmods == 4) else (None, 0)) + ((0,) if not th and r == 1 else ()):
                                        yield ("graph", nmods, tuple(es), ef, targets, fm, subdir, dup, None)
        # same-named modules below different packages and directories: every ordered selection of 2-3 (4 thorough) of 9 imports
        for r in ((2, 3, 4) if th else (2, 3)):
            for seq in itertools.permutations(SN_IMPORTS, r):
                yield ("samename", seq)
        for r in ((1, 2, 3, 4) if th else (1, 2, 3)):
            for seq in itertools.permutations(DP_IMPORTS, r):
                yield ("deep", seq, None)
                if r <= 2:
                    for bad in DP_BAD:
                        yield ("deep", seq, bad)
        for body in MF_BODIES:
            for pre in MF_PRE:
                for form in MF_FORMS:
                    for twice in (False, True):
                        yield ("modfiber", body, pre, form, twice)
        for neg in ("priv_whole", "hidden_whole", "priv_selected", "unknown_selected", "missing_module", "missing_submodule", "cnt_unreachable"):
            for subdir in (None, "a"):
                for form in FORMS:
                    yield ("graph", 1, (), (), ("a",), (form,), subdir, None, neg)

    def files(self, spec):
        if spec[0] in ("samename", "deep"):
            return None
        _, nmods, es, ef, targets, fm, subdir, dup, neg = spec
        edges = {}
        for (src, dst), f in zip(es, ef):
            edges.setdefault(src, []).append((dst, f))
        main_imports = list(zip(targets, fm))
        if dup is not None:
            t, f = main_imports[dup]
            main_imports.append((t, FORMS[(FORMS.index(f) + 1) % 4]))
        return build_graph(nmods, edges, main_imports, subdir, neg)

    def describe(self, spec):
        if spec[0] == "modfiber":
            return "module body=%s imported (%s) by a program with fibers of its own=%s, used again later=%s" % (spec[1], spec[3], spec[2], spec[4])
        if spec[0] == "deep":
            return "deep paths / modules named like packages, main imports in order: %s%s" % (list(spec[1]), (" then the unknown package path " + spec[2]) if spec[2] else "")
        if spec[0] == "samename":
            return "same-named modules (std.math, self.math, self.dir.math and three importers of them), main imports in order: %s" % list(spec[1])
        _, nmods, es, ef, targets, fm, subdir, dup, neg = spec
        return "modules=%d edges=%s forms=%s main imports=%s subdir=%s duplicate=%s negative=%s" % (nmods, list(es), list(ef), list(zip(targets, fm)), subdir, dup, neg)

    def build(self, spec):
        if spec[0] == "modfiber":
            return [{"files": modfiber_files(*spec[1:]), "entry": "/v/main.lay", "step_limit": 300000}], ("modfiber", None, None)
        if spec[0] == "deep":
            src, exp = deep_program(spec[1], spec[2])
            files = dict(DP_FILES)
            files["/v/main.lay"] = src
            return [{"files": files, "entry": "/v/main.lay", "step_limit": 300000}], exp
        if spec[0] == "samename":
            src, want = samename_program(spec[1])
            files = dict(SN_FILES)
            files["/v/main.lay"] = src
            return [{"files": files, "entry": "/v/main.lay", "step_limit": 300000}], ("ok", want, None)
        files_ast = self.files(spec)
        srcs = {p: L.render(st)[0] for p, st in files_ast.items()}
        try:
            it = L.Interp(files=files_ast)
            exp = it.run(files_ast["/v/main.lay"])[:3]
        except L.Unsupported as u:
            exp = ("unsupported", str(u), None)
        return [{"files": srcs, "entry": "/v/main.lay", "step_limit": 300000}], exp

    def judge(self, spec, exp, rs):
        r = rs[0]
        if spec[0] == "modfiber":
            return self.judge_modfiber(spec, r)
        cls, out, ecls = exp
        if cls == "unsupported":
            v = Verdict(False, False, "reference", "reference cannot evaluate: " + out)
            v.extra["machinery"] = True
            return v
        ok = r.get("class") == cls and r.get("out") == out
        if ok and cls == "runtime_error":
            last = r.get("err", "").strip().split("\n")[-1]
            ok = last.startswith(str(ecls) + ":")
        if not ok:
            return Verdict(False, True, "mismatch", "expected class=%s%s out=%r; got class=%s out=%r err=%r %s" % (
                cls, "(%s)" % ecls if ecls else "", out, r.get("class"), r.get("out"), r.get("err", "")[-200:], r.get("panic") or ""))
        if spec[0] in ("samename", "deep"):
            return Verdict(True, True, cls)
        return Verdict(True, spec[1] > 1 or spec[7] is not None or spec[8] is not None, cls)


def _judge_modfiber(self, spec, r):
    lines = r.get("out", "").split("\n")
    problems = []
    if r.get("class") != "ok":
        problems.append("program ended with class=%s" % r.get("class"))
    if lines.count("m start") != 1 or lines.count("m end") != 1:
        problems.append("the module body ran %d time(s) to its start and %d time(s) to its end" % (lines.count("m start"), lines.count("m end")))
    cont = [i for i, l in enumerate(lines) if l.startswith("main continues")]
    if cont and "m end" in lines and lines.index("m end") > cont[0]:
        problems.append("the importer continued before the module body had finished")
    if not cont and r.get("class") == "ok":
        problems.append("the importer never continued")
    want = "main continues 42 [42, 1]"
    if cont and lines[cont[0]] != want:
        problems.append("the importer saw %r instead of %r" % (lines[cont[0]], want))
    if spec[4] and r.get("class") == "ok" and "later [42, 2]" not in lines:
        problems.append("a later use of the import does not see the module's state: %r" % [l for l in lines if l.startswith("later")])
    if r.get("class") == "ok" and lines[-2:] != ["main end", ""]:
        problems.append("main did not reach its end")
    if problems:
        v = Verdict(False, True, "modfiber", "; ".join(problems) + " | out=%r err=%r %s" % (r.get("out"), r.get("err", "")[-200:], r.get("panic") or ""))
        # known finding: a sleeping importer is woken by ANY child fiber that completes, not only by the module's fiber
        if spec[2] != "none" and spec[1] in MF_BLOCKING and r.get("class") in ("ok", "runtime_error", "deadlock"):
            v.finding = "KF-C17-importer-woken-early"
        return v
    return Verdict(True, True, "modfiber:ok")


C17.judge_modfiber = _judge_modfiber


def main(tier):
    t0 = time.time()
    chk = C17()
    chk.rule = ("all DAGs over 1-3 modules (+ main; thorough also all 64 DAGs over 4 modules with every ordered selection of main's imports, forms rotated), every non-empty ordered selection of main's imports, import forms (quick: all 4 for single imports, 4 rotations otherwise; thorough: full product), "
                "4 rotations of edge forms, with/without a sub-directory module, duplicate import with a second form, 7 negative families x 4 forms; "
                "module bodies that launch fibers / block on channels x importer with 0-2 fibers of its own x 3 forms (body runs once, to its end, before the importer continues; interleaving of other fibers not compared); "
                "same-named modules (std.math, self.math, self.dir.math, whole and selected, directly and through three importing modules): every ordered selection of 2-3 (4 thorough) of 9 imports; "
                "non-trivial = graph with >= 2 modules, a duplicate import or a negative case")
    merged = explore(chk, tier, cap_s=(1500 if tier == "thorough" else 200))
    return report.finish(chk, tier, merged, t0)
