#!/usr/bin/env python3
"""keep a confirmed seeded change: keep_seed.py <worktree name> <seed id> <caught_by comma list> <missed_before note>"""
import json, os, shutil, sys
wt, sid, caught, note = sys.argv[1:5]
src = "/tmp/wt/%s/_seed" % wt
dst = "/verif/seeded/%s" % sid
os.makedirs(dst, exist_ok=True)
for f in os.listdir(src):
    if os.path.isdir(os.path.join(src, f)):
        shutil.copytree(os.path.join(src, f), os.path.join(dst, f), dirs_exist_ok=True)
    elif os.path.getsize(os.path.join(src, f)) < 400000:
        shutil.copy(os.path.join(src, f), os.path.join(dst, f))
m = json.load(open(os.path.join(dst, "meta.json")))
m["seed_id"] = sid
m["confirmed_by_me"] = {"what_i_ran": "/tmp/wt/confirm_seed.sh %s (cargo test --workspace --no-fail-fast --offline with the change: 617 passed, the 5 baseline failures; demo with the change vs. after git apply -R of the change)" % wt,
                        "result": "suite unchanged; demo output differs exactly as described"}
m["caught_by"] = caught.split(",")
m["detection_note"] = note
m["how_to_rerun"] = "cd /verif && ./seedtest.sh seeded/%s/patch.diff %s" % (sid, " ".join(caught.split(",")))
json.dump(m, open(os.path.join(dst, "meta.json"), "w"), indent=1)
print("kept", dst, os.listdir(dst))
