#!/bin/bash
# apply a seeded patch to /repo, run the given checks (quick), undo, rebuild. usage: seedtest.sh <patch> <ID>...
patch=$(realpath "$1"); shift
cd /repo && git apply "$patch" || { echo "patch does not apply"; exit 1; }
cd /verif
for c in "$@"; do
  out=$(timeout 1500 ./vc $c quick 2>&1); rc=$?
  echo "$c rc=$rc :: $(echo "$out" | grep -E "^$c quick:" | tail -1 | cut -c1-200)"
  echo "$out" | grep -E "^VIOLATION|^MACHINERY" | head -2
  echo "$out" | grep -E "^  reason" | head -1 | cut -c1-300
done
cd /repo && git checkout -- . && git status --short | head -2; cd /verif && ./vc build all >/dev/null 2>&1
