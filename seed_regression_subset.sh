#!/bin/bash
# seed_regression.sh for a list of seed ids (prefixes): ./seed_regression_subset.sh <out-file> S61 S62 ...
# applies each kept patch to /repo, runs the quick tier of its caught_by checks, reverts; /repo must be clean and is left clean.
cd "$(dirname "$0")"
out=$1; shift
echo "seed regression on /repo $(git -C /repo log --format=%h -1), /verif $(git log --format=%h -1), $(date -u +%FT%TZ)" > $out
[ -n "$(git -C /repo status --porcelain)" ] && { echo "/repo not clean"; exit 2; }
for p in "$@"; do
  for d in seeded/$p*/; do
    id=$(basename $d)
    checks=$(python3 -c "import json;print(' '.join(json.load(open('$d/meta.json'))['caught_by']))")
    if ! git -C /repo apply "$PWD/$d/patch.diff" 2>/dev/null; then echo "$id: patch does not apply any more" | tee -a $out; git -C /repo checkout -- .; continue; fi
    line="$id:"
    for c in $checks; do
      o=$(timeout 1800 ./vc $c quick 2>&1); rc=$?
      n=$(echo "$o" | grep -c "^VIOLATION")
      line="$line $c=exit$rc/violations$n"
    done
    git -C /repo checkout -- . ; git -C /repo reset -q
    echo "$line" | tee -a $out
  done
done
./vc build all >/dev/null 2>&1
echo "done" >> $out
