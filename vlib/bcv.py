"""Bytecode abstract machine (C06): explicit-state exploration of
(pc, stack depth, function-local handler stack) over all paths of a function's
control-flow graph, with stack effects written down independently of the
compiler's table. Also predicts, per pc, the set of (depth, handlers) pairs the
interpreter can be in, which is compared against per-instruction VM traces."""

NOOP = "Return Negate Add Subtract Multiply Divide Not Nil True False Channel BufferedChannel Receive Send Drop Dup EmptyBox FillBox PopHandler FinishUnwind ContinueUnwind GetError Raise Inherit Equal NotEqual Greater GreaterEqual Less LessEqual".split()
U8 = "Constant Launch DropN Box GetBox SetBox GetLocal SetLocal GetCapture SetCapture Call".split()
U16 = "And Or ConstantLong List Tuple Map Interpolate IterNext IterCurrent Import Export LoadGlobal GetModSym SetModSym GetProp SetProp JumpIfFalse Jump Loop CheckHandler Closure Method Field StaticMethod Class GetSuper".split()
U16SLOT = "GetPropByName SetPropByName".split()
U16U16 = "ImportSym DeclareModSym PushHandler".split()
INVOKE = "Invoke SuperInvoke".split()

E = {'Negate': 0, 'Not': 0, 'Add': -1, 'Subtract': -1, 'Multiply': -1, 'Divide': -1, 'Equal': -1, 'NotEqual': -1, 'Greater': -1, 'GreaterEqual': -1,
     'Less': -1, 'LessEqual': -1, 'Constant': 1, 'ConstantLong': 1, 'Nil': 1, 'True': 1, 'False': 1, 'Channel': 1, 'BufferedChannel': 0, 'Receive': 0,
     'Send': -1, 'IterNext': 0, 'IterCurrent': 0, 'Drop': -1, 'Dup': 1, 'Import': 1, 'ImportSym': 1, 'Export': 0, 'LoadGlobal': 1, 'DeclareModSym': 0,
     'GetModSym': 1, 'SetModSym': 0, 'Box': 0, 'EmptyBox': 1, 'FillBox': -1, 'GetBox': 1, 'SetBox': 0, 'GetLocal': 1, 'SetLocal': 0, 'GetCapture': 1,
     'SetCapture': 0, 'GetPropByName': 0, 'SetPropByName': -1, 'GetProp': 0, 'SetProp': -1, 'Jump': 0, 'Loop': 0, 'PushHandler': 0, 'PopHandler': 0,
     'FinishUnwind': 0, 'GetError': 1, 'Closure': 1, 'Method': -1, 'Field': 0, 'StaticMethod': -1, 'Class': 1, 'Inherit': 0, 'GetSuper': -1}


class Bad(Exception):
    pass


def u16(code, i):
    return code[i] | (code[i + 1] << 8)


def u32(code, i):
    return code[i] | (code[i + 1] << 8) | (code[i + 2] << 16) | (code[i + 3] << 24)


def decode(fn, ops):
    code = fn['code']
    pc = 0
    ins = {}
    while pc < len(code):
        b = code[pc]
        if b >= len(ops):
            raise Bad('bad opcode %d at %d' % (b, pc))
        name = ops[b]
        a = None
        n = 1
        try:
            if name in NOOP:
                pass
            elif name in U8:
                a = code[pc + 1]
                n = 2
            elif name in U16:
                a = u16(code, pc + 1)
                n = 3
            elif name in U16SLOT:
                a = (u16(code, pc + 1), u32(code, pc + 3))
                n = 7
            elif name in U16U16:
                a = (u16(code, pc + 1), u16(code, pc + 3))
                n = 5
            elif name in INVOKE:
                a = (u16(code, pc + 1), code[pc + 3], u32(code, pc + 4))
                n = 8
            else:
                raise Bad('unknown op ' + name)
        except IndexError:
            raise Bad('truncated instruction at %d' % pc)
        if name == 'Closure':
            k = fn['consts'][a] if a < len(fn['consts']) else None
            if k is None or not k.startswith('F'):
                raise Bad('Closure constant %s is not a function at %d' % (a, pc))
            n += 2 * int(k.split(':')[2])
        if pc + n > len(code):
            raise Bad('truncated instruction at %d' % pc)
        ins[pc] = (name, a, n)
        pc += n
    return ins


def effect(name, a):
    if name in E:
        return E[name]
    if name in ('List', 'Tuple', 'Interpolate'):
        return 1 - a
    if name == 'Map':
        return 1 - 2 * a
    if name == 'DropN':
        return -a
    if name == 'Launch':
        return -(a + 1)
    if name == 'Call':
        return -a
    if name == 'Invoke':
        return -a[1]
    if name == 'SuperInvoke':
        return -(a[1] + 1)
    raise Bad('no stack effect known for ' + name)


def verify(fn, ops, module):
    """returns (violations, states, transitions, table) where table[pc] = set of (depth, nhandlers)"""
    V = []
    try:
        ins = decode(fn, ops)
    except Bad as e:
        return [str(e)], 0, 0, {}
    base = 1 + fn['arity']
    depth_at = {}
    hand_at = {}
    table = {}
    todo = [(0, base, ())]
    states = trans = 0
    maxd = base
    code_len = len(fn['code'])
    seen = set()
    nconst = len(fn['consts'])

    def go(pc, d, h):
        nonlocal trans
        trans += 1
        if pc not in ins:
            V.append('jump to a non instruction boundary / outside the function: %d' % pc)
            return
        todo.append((pc, d, h))
    while todo:
        pc, d, h = todo.pop()
        if (pc, d, h) in seen:
            continue
        seen.add((pc, d, h))
        states += 1
        if states > 200000:
            V.append('abstract state space does not converge')
            break
        if pc in depth_at and depth_at[pc] != d:
            V.append('join mismatch at %d: depth %d vs %d' % (pc, depth_at[pc], d))
            continue
        depth_at[pc] = d
        if pc in hand_at and len(hand_at[pc]) != len(h):
            V.append('handler count mismatch at %d: %d vs %d' % (pc, len(hand_at[pc]), len(h)))
            continue
        hand_at[pc] = h
        table.setdefault(pc, set()).add((d, len(h)))
        name, a, n = ins[pc]
        nxt = pc + n
        if name in ('GetLocal', 'SetLocal', 'GetBox', 'SetBox', 'Box') and a >= d:
            V.append('%s %d addresses a slot beyond the live depth %d at %d' % (name, a, d, pc))
        if name in ('Constant', 'ConstantLong') and a >= nconst:
            V.append('constant index %d out of range at %d' % (a, pc))
        if name in ('GetCapture', 'SetCapture') and a >= fn['captures']:
            V.append('capture index %d out of range (%d captures) at %d' % (a, fn['captures'], pc))
        if name in ('GetPropByName', 'SetPropByName'):
            if a[0] >= nconst:
                V.append('name constant %d out of range at %d' % (a[0], pc))
            if module is not None and a[1] >= module['property_slots']:
                V.append('property cache slot %d out of range (%d) at %d' % (a[1], module['property_slots'], pc))
        if name in ('Invoke', 'SuperInvoke'):
            if a[0] >= nconst:
                V.append('name constant %d out of range at %d' % (a[0], pc))
            if module is not None and a[2] >= module['invoke_slots']:
                V.append('invoke cache slot %d out of range (%d) at %d' % (a[2], module['invoke_slots'], pc))
        if name in ('GetModSym', 'SetModSym', 'LoadGlobal', 'Import', 'Export', 'GetProp', 'SetProp', 'Method', 'Field', 'StaticMethod', 'Class', 'GetSuper', 'Closure', 'IterNext', 'IterCurrent'):
            pass
        if name == 'Return':
            if d < base + 1:
                V.append('return with depth %d, below frame base+1 = %d at %d' % (d, base + 1, pc))
            if h:
                V.append('return with %d live handler(s) of this function at %d' % (len(h), pc))
            continue
        if name in ('Raise', 'ContinueUnwind'):
            if name == 'Raise' and d < base + 1:
                V.append('raise with depth %d below frame base+1 at %d' % (d, pc))
            continue
        if name in ('And', 'Or'):
            go(nxt + a, d, h)
            nd = d - 1
        elif name in ('JumpIfFalse', 'CheckHandler'):
            nd = d - 1
            go(nxt + a, nd, h)
        elif name == 'Jump':
            go(nxt + a, d, h)
            continue
        elif name == 'Loop':
            go(nxt - a, d, h)
            continue
        elif name == 'PushHandler':
            rec, jmp = a
            if rec != d:
                V.append('PushHandler records depth %d but the live depth is %d at %d' % (rec, d, pc))
            # catch entry: the VM resets the stack to the recorded depth; the handler is still registered
            go(nxt + jmp, rec, h + (pc,))
            nd = d
            h = h + (pc,)
        elif name == 'PopHandler':
            if not h:
                V.append('PopHandler with no live handler of this function at %d' % pc)
                continue
            nd = d
            h = h[:-1]
        else:
            try:
                nd = d + effect(name, a)
            except Bad as e:
                V.append(str(e))
                continue
        if nd < base:
            V.append('depth %d below the frame base %d after %s at %d' % (nd, base, name, pc))
        maxd = max(maxd, nd)
        if nxt >= code_len:
            V.append('control falls off the end of the function after %d' % pc)
            continue
        go(nxt, nd, h)
    if maxd - base > fn['max_slots']:
        V.append('peak depth %d above the arguments exceeds the reserved max_slots=%d' % (maxd - base, fn['max_slots']))
    return V, states, trans, table


def parse_dump(text):
    """-> (modules {id: {...}}, funs {id: fn})"""
    modules = {}
    funs = {}
    last = None
    for line in text.split('\n'):
        p = line.split(' ')
        if p[0] == 'MODULE':
            kv = dict(x.split('=') for x in p[1:])
            modules[int(kv['id'])] = {'property_slots': int(kv['property_slots']), 'invoke_slots': int(kv['invoke_slots'])}
        elif p[0] == 'FUN':
            kv = {}
            for x in p[1:7]:
                k, v = x.split('=', 1)
                kv[k] = v
            last = {'id': int(kv['id']), 'arity': int(kv['arity']), 'max_slots': int(kv['max_slots']), 'captures': int(kv['captures']),
                    'module': int(kv['module']), 'name': line.split('name=', 1)[1] if 'name=' in line else '?'}
            funs[last['id']] = last
        elif p[0] == 'CODE':
            last['code'] = [int(x) for x in p[1:] if x]
        elif p[0] == 'LINES':
            last['lines'] = [int(x) for x in p[1:] if x]
        elif p[0] == 'CONSTS':
            last['consts'] = [x for x in p[2:] if x]
    return modules, funs
