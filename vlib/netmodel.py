"""Process-network model for C07/C08 (DESIGN.md 2.5).

A network = channel kinds + one straight-line script of (send|recv|close, channel)
per fiber (fiber 0 is main); ('l', j) launches fiber j (fibers no script launches are
launched by main before its first operation). The model gives Go-like channel semantics restricted
to what C07 states; explore() is an explicit-state search over ALL schedules;
check_trace() replays the VM's observed completion lines against the model
(trace inclusion, offers are silent steps) and checks the terminal report.
"""
import itertools

KINDS = ['sync', 'buf1', 'buf2']
CAP = {'buf1': 1, 'buf2': 2, 'buf3': 3}


def scripts_upto(nch, maxlen):
    alpha = [(op, c) for c in range(nch) for op in 'src']
    out = [()]
    for L in range(1, maxlen + 1):
        out += list(itertools.product(alpha, repeat=L))
    return out


def networks(nch, nfib, total):
    """all networks with exactly nfib launched fibers (symmetric fibers merged: launched scripts in non decreasing order), total ops <= total"""
    S = scripts_upto(nch, total)
    nonempty = [s for s in S if s]   # ordered by length, then lexicographically

    def rest(k, start, budget):
        if k == 0:
            yield ()
            return
        for j in range(start, len(nonempty)):
            s = nonempty[j]
            if len(s) * k > budget:
                break  # scripts are ordered by length: nothing longer fits k times
            for tail in rest(k - 1, j, budget - len(s)):
                yield (s,) + tail
    for kinds in itertools.product(KINDS, repeat=nch):
        for main in S:
            left = total - len(main)
            if left < nfib:
                continue
            for r in rest(nfib, 0, left):
                yield kinds, (main,) + r


def val(f, i):
    return "v%d_%d" % (f, i)


def started_at_init(fibers):
    later = {c for s in fibers for (op, c) in s if op == 'l'}
    return frozenset(f for f in range(len(fibers)) if f not in later)


def body(f, script, wrap=None, params=""):
    out = []
    for i, (op, c) in enumerate(script):
        if op == 's':
            st = "c%d <- '%s'; print('%d %d s');" % (c, val(f, i), f, i)
        elif op == 'r':
            st = "let x%d = <- c%d; print('%d %d r ' + (x%d == nil ? 'nil' : x%d));" % (i, c, f, i, i, i)
        elif op == 'l':
            st = "launch f%d(%s); print('%d %d l');" % (c, params, f, i)
        else:
            st = "c%d.close(); print('%d %d c');" % (c, f, i)
        if wrap == i:
            # the operation runs inside a callback invoked by a native iterator (nested interpreter loop)
            st = "[0].iter().each(|_z| { %s });" % st
        out.append(st)
    return ' '.join(out)


def program(kinds, fibers, launch_late=False, wrap=None):
    L = []
    for c, k in enumerate(kinds):
        L.append("let c%d = %s;" % (c, {'sync': 'chan()', 'buf1': 'chan(1)', 'buf2': 'chan(2)', 'buf3': 'chan(3)'}[k]))
    params = ', '.join('c%d' % c for c in range(len(kinds)))
    for f, s in enumerate(fibers):
        if f == 0:
            continue
        L.append("fn f%d(%s) { %s }" % (f, params, body(f, s, wrap[1] if wrap and wrap[0] == f else None, params)))
    launches = ["launch f%d(%s);" % (f, params) for f in range(1, len(fibers)) if f in started_at_init(fibers)]
    L += launches
    L.append(body(0, fibers[0], wrap[1] if wrap and wrap[0] == 0 else None, params))
    L.append("print('0 end');")
    return '\n'.join(L)


def init(kinds, fibers):
    return (tuple(0 for _ in fibers), tuple(((), False, None) for _ in kinds), frozenset(), started_at_init(fibers))


def steps(kinds, fibers, st):
    """yield (event, newstate, reason). event None = silent offer; (f, i, kind, value) = visible completion; ('err', f, i) = raise.
    reason: 'closed' the step is possible because the channel is closed, 'released' completion of a sync send whose value was taken, else 'plain'"""
    pcs, chans, rel, started = st
    for f, s in enumerate(fibers):
        i = pcs[f]
        if i >= len(s) or f not in started:
            continue
        op, c = s[i]
        if op == 'l':
            np = list(pcs)
            np[f] += 1
            yield (f, i, 'l', None), (tuple(np), chans, rel, started | {c}), 'plain'
            continue
        q, closed, offer = chans[c]

        def upd(newchan, adv=True):
            nc = list(chans)
            nc[c] = newchan
            np = list(pcs)
            if adv:
                np[f] += 1
            return (tuple(np), tuple(nc), rel, started)
        if op == 's':
            if kinds[c] == 'sync':
                if f in rel:
                    np = list(pcs)
                    np[f] += 1
                    yield (f, i, 's', None), (tuple(np), chans, rel - {f}, started), 'released'
                    continue
                if offer is not None and offer[0] == f:
                    continue
                if closed:
                    yield ('err', f, i), upd((q, closed, offer), False), 'closed'
                elif offer is None:
                    yield None, upd((q, closed, (f, val(f, i))), False), 'offer'
            else:
                if closed:
                    yield ('err', f, i), upd((q, closed, offer), False), 'closed'
                elif len(q) < CAP[kinds[c]]:
                    yield (f, i, 's', None), upd((q + (val(f, i),), closed, offer)), 'bufsend'
        elif op == 'r':
            if kinds[c] == 'sync':
                if offer is not None:
                    n = upd((q, closed, None))
                    yield (f, i, 'r', offer[1]), (n[0], n[1], rel | {offer[0]}, started), 'syncrecv'
                elif closed:
                    yield (f, i, 'r', 'nil'), upd((q, closed, offer)), 'closed'
            else:
                if q:
                    yield (f, i, 'r', q[0]), upd((q[1:], closed, offer)), 'bufrecv'
                elif closed:
                    yield (f, i, 'r', 'nil'), upd((q, closed, offer)), 'closed'
        else:
            if closed:
                yield ('err', f, i), upd((q, closed, offer), False), 'closed'
            else:
                yield (f, i, 'c', None), upd((q, True, offer)), 'plain'


def unspecified(kinds, st):
    """close while a synchronous sender is parked with an untaken value: the statement is silent"""
    return any(k == 'sync' and closed and offer is not None for k, (q, closed, offer) in zip(kinds, st[1]))


def explore(kinds, fibers):
    s0 = init(kinds, fibers)
    seen = {s0}
    todo = [s0]
    trans = 0
    unspec = False
    deadlocks = 0
    while todo:
        s = todo.pop()
        if unspecified(kinds, s):
            unspec = True
        n_en = 0
        for ev, n, _ in steps(kinds, fibers, s):
            trans += 1
            n_en += 1
            if ev and ev[0] == 'err':
                continue
            if n not in seen:
                seen.add(n)
                todo.append(n)
        if n_en == 0 and s[0][0] < len(fibers[0]):
            deadlocks += 1
    return len(seen), trans, unspec, deadlocks


def tau_closure(kinds, fibers, S):
    S = set(S)
    todo = list(S)
    while todo:
        s = todo.pop()
        for ev, n, _ in steps(kinds, fibers, s):
            if ev is None and n not in S:
                S.add(n)
                todo.append(n)
    return S


def check_trace(kinds, fibers, cls, lines):
    """returns (verdict, detail): verdict None if conforming, else one of
    'safety' (C07: a completed step the model does not enable), 'spurious-deadlock', 'early-exit', 'unexpected-error', 'no-main-end'.
    detail for spurious deadlocks = set of reasons of the transitions the model still enables"""
    S = tau_closure(kinds, fibers, {init(kinds, fibers)})
    main_end = False
    for ln in lines:
        if ln == '0 end':
            main_end = True
            continue
        p = ln.split()
        try:
            f, i, k = int(p[0]), int(p[1]), p[2]
        except Exception:
            return 'safety', 'unparsable line %r' % ln
        v = p[3] if len(p) > 3 else None
        N = set()
        for s in S:
            for ev, n, _ in steps(kinds, fibers, s):
                if ev and ev[0] != 'err' and ev == (f, i, k, v):
                    N.add(n)
        if not N:
            return 'safety', 'completed step not enabled in the model: %r' % ln
        S = tau_closure(kinds, fibers, N)
    if any(unspecified(kinds, s) for s in S):
        return None, 'unspecified'
    if cls == 'ok':
        if not main_end:
            return 'no-main-end', 'normal exit without main reaching its end'
        if not any(s[0][0] == len(fibers[0]) for s in S):
            return 'early-exit', 'main ended before completing its operations'
    elif cls == 'deadlock':
        ok = any((not any(True for _ in steps(kinds, fibers, s))) and s[0][0] < len(fibers[0]) for s in S)
        if not ok:
            all_rel = all(s[2] for s in S)
            def every(w):
                return all(any(why == w for ev, n, why in steps(kinds, fibers, s)) for s in S)
            return 'spurious-deadlock', ('released' if all_rel else 'closed' if every('closed') else 'bufrecv' if every('bufrecv') else
                                         'bufsend' if every('bufsend') else 'syncrecv' if every('syncrecv') else
                                         'mixed' if all(any(why != 'plain' for ev, n, why in steps(kinds, fibers, s)) for s in S) else 'other')
    elif cls == 'runtime_error':
        ok = any(ev and ev[0] == 'err' for s in S for ev, n, _ in steps(kinds, fibers, s))
        if not ok:
            return 'unexpected-error', 'an error ended the program but the model enables no error here'
    else:
        return 'crash', cls
    return None, None
