"""Turn merged exploration statistics into verdict lines, replay files and evidence."""
import json, os, sys, time, pickle, base64
from . import runner as R
from .engine import Verdict

ROOT = R.ROOT
KF_PATH = os.path.join(ROOT, "known_findings.json")


REGIONS = os.path.join(ROOT, "known_regions")


def load_frozen(prop):
    """recorded failing inputs per open finding (hashes of the spec descriptions); None if nothing was recorded"""
    import gzip
    path = os.path.join(REGIONS, prop + ".json.gz")
    if not os.path.exists(path):
        return None
    with gzip.open(path, "rt") as fh:
        d = json.load(fh)
    return {k: set(v) for k, v in d.items()}


def save_frozen(prop, keys):
    import gzip
    os.makedirs(REGIONS, exist_ok=True)
    path = os.path.join(REGIONS, prop + ".json.gz")
    old = load_frozen(prop) or {}
    for k, v in keys.items():
        old.setdefault(k, set()).update(v)
    with gzip.open(path, "wt") as fh:
        json.dump({k: sorted(v) for k, v in sorted(old.items())}, fh)
    return {k: len(v) for k, v in old.items()}


def load_findings(prop):
    try:
        data = json.load(open(KF_PATH))
    except FileNotFoundError:
        return []
    return [f for f in data.get("findings", []) if prop in f.get("properties", [f.get("property")])]


def witness_fails(f, build="checked"):
    """run the witness of a finding; True if the defective observation is still present"""
    w = f.get("witness")
    if not w:
        return True
    case = dict(w["case"])
    case["id"] = "witness"
    rn = R.Runner(build=w.get("build", build), horizon_ms=w.get("horizon_ms", 10000))
    try:
        r = rn.run_one(case)
    finally:
        rn.close()
    d = w["defect"]  # description of the defective observation
    ok = True
    if "class" in d:
        ok &= r.get("class") in (d["class"] if isinstance(d["class"], list) else [d["class"]])
    if "out" in d:
        ok &= R.norm(r.get("out", "")) == d["out"]
    if "out_contains" in d:
        ok &= d["out_contains"] in r.get("out", "")
    if "err_contains" in d:
        ok &= d["err_contains"] in r.get("err", "")
    if "panic_contains" in d:
        ok &= d["panic_contains"] in (r.get("panic") or "")
    if "mismatch_positive" in d:
        ok &= (r.get("mismatch", 0) > 0) == d["mismatch_positive"]
    return ok


def write_replay(check, failure, n):
    d = os.path.join(ROOT, "replays", check.id)
    os.makedirs(d, exist_ok=True)
    path = os.path.join(d, "case_%06d_%d.json" % (failure.get("index", 0), n))
    with open(path, "w") as fh:
        json.dump({
            "property": check.id, "build": failure.get("build", check.build_kind), "spec": failure["spec"], "reason": failure["reason"],
            "cases": failure["cases"], "observed": failure["observed"], "spec_b64": failure.get("spec_b64"),
            "replay": "cd /verif && ./vc replay %s" % path,
        }, fh, indent=1)
    return path


def confirm(check, failure):
    """replay a failing spec twice in fresh processes; returns ('confirmed'|'unstable'|'vanished', results)"""
    runs = []
    for _ in range(2):
        rn = R.Runner(build=failure.get("build", check.build_kind), horizon_ms=max(check.horizon_ms, 10000))
        try:
            cs = [dict(c) for c in failure["cases"]]
            runs.append(rn.run_batch(cs))
        finally:
            rn.close()
    k0 = [R.obs_key(r) for r in runs[0]]
    k1 = [R.obs_key(r) for r in runs[1]]
    if k0 != k1:
        return "unstable", runs
    return "stable", runs


def finish(check, tier, merged, t0, coverage_extra=None, rejudge=None, extra_violations=None, extra_known=None):
    """prints verdict lines, writes evidence, returns exit code.
    rejudge(failure, results) -> Verdict re-evaluates a failure on replayed results."""
    if rejudge is None:
        def rejudge(f, results):
            spec = pickle.loads(base64.b64decode(f["spec_b64"]))
            _, ctx = check.build(spec)
            v = check.judge(spec, ctx, results)
            if not v.ok and v.finding:
                from .engine import apply_frozen
                apply_frozen(check, spec, v)
            return v
    findings = load_findings(check.id)
    open_f = [f for f in findings if f.get("status") == "open"]
    lines = []
    code = 0

    if merged.get("errors"):
        for e in merged["errors"]:
            sys.stderr.write("MACHINERY ERROR in worker:\n" + e + "\n")
        code = 2

    violations = []
    machinery = []
    for n, f in enumerate(merged["failures"]):
        if f.get("machinery"):
            machinery.append(f)
            continue
        if len(violations) >= 12:
            # enough confirmed artefacts; the rest is counted only
            break
        status, runs = confirm(check, f)
        if status == "unstable":
            machinery.append(dict(f, reason="nondeterministic replay: " + f["reason"]))
            continue
        if rejudge is not None:
            v = rejudge(f, runs[0])
            if v.ok:
                machinery.append(dict(f, reason="failure vanished in isolated replay: " + f["reason"]))
                continue
            if v.finding:
                m = merged["known"].setdefault(v.finding, {"count": 0, "example": None})
                m["count"] += 1
                if m["example"] is None:
                    m["example"] = {"spec": f["spec"], "reason": v.reason}
                continue
        path = write_replay(check, f, n)
        violations.append((f, path))
    for v in (extra_violations or []):
        violations.append(v)

    for f, path in violations:
        print("VIOLATION property=%s replay=%s" % (check.id, path))
        print("  spec: %s" % str(f.get("spec"))[:300])
        print("  reason: %s" % str(f.get("reason"))[:600])
        code = max(code, 1)
    if machinery and code != 1:
        for f in machinery[:5]:
            sys.stderr.write("MACHINERY: %s :: %s\n" % (f.get("spec"), str(f.get("reason"))[:800]))
        code = 2

    known_lines = []
    known_ids = set(merged["known"].keys()) | set((extra_known or {}).keys())
    for f in open_f:
        still = witness_fails(f, check.build_kind)
        cnt = merged["known"].get(f["id"], {}).get("count", 0) + (extra_known or {}).get(f["id"], 0)
        if still or cnt:
            print("KNOWN-FINDING: property=%s %s (%s; %d explored case(s) attributed)" % (check.id, f["id"], f["title"], cnt))
            known_lines.append(f["id"])
    unlisted = [k for k in known_ids if k not in {f["id"] for f in open_f}]
    if unlisted:
        # a failure was attributed to a finding that is not listed as open: that is a violation
        for k in unlisted:
            ex = merged["known"].get(k, {}).get("example") or {}
            path = os.path.join(ROOT, "replays", check.id, "unlisted_%s.json" % k)
            os.makedirs(os.path.dirname(path), exist_ok=True)
            json.dump({"property": check.id, "finding": k, "example": ex}, open(path, "w"), indent=1)
            print("VIOLATION property=%s replay=%s" % (check.id, path))
            print("  reason: behaviour of finding %s observed but it is not listed as open (fixed findings suppress nothing): %s" % (k, str(ex)[:400]))
            code = max(code, 1) if code != 2 else 1

    cov = {
        "evaluations": merged["evaluations"],
        "distinct_nontrivial": merged["nontrivial"],
        "rule": check.rule,
        "samples": merged["samples"][:4] or [{"note": "no sample recorded"}],
        "exhaustive": not merged["capped"],
        "specs": merged["specs"],
        "distinct_outcomes": len(merged["outcomes"]),
        "result_classes": merged["classes"],
        "failing_specs": merged["fail_count"],
        "known_finding_cases": {k: v["count"] for k, v in merged["known"].items()},
        "runner_restarts": merged["restarts"],
        "capped": merged["capped"],
        "build": check.build_kind,
    }
    top = sorted(merged["outcomes"].items(), key=lambda kv: -kv[1])[:12]
    cov["top_outcomes"] = [[k[:120], v] for k, v in top]
    for k, v in merged["extra"].items():
        cov[k] = v
    if coverage_extra:
        cov.update(coverage_extra)
    ev = {
        "property_id": check.id,
        "tier": tier,
        "seed": int(os.environ.get("VERIF_SEED", "0") or 0),
        "level": check.level,
        "coverage": cov,
        "assumptions": list(check.assumptions),
        "wall_s": round(time.time() - t0, 3),
        "violations": len(violations),
        "known_findings_reported": known_lines,
    }
    # vacuity guard
    if code == 0 and (cov["distinct_nontrivial"] < 2 or cov["evaluations"] < 1):
        sys.stderr.write("MACHINERY: vacuous exploration (distinct_nontrivial=%d)\n" % cov["distinct_nontrivial"])
        code = 2
    os.makedirs(os.path.join(ROOT, "evidence"), exist_ok=True)
    with open(os.path.join(ROOT, "evidence", check.id + ".json"), "w") as fh:
        json.dump(ev, fh, indent=1, default=str)
    print("%s %s: specs=%d evaluations=%d nontrivial=%d outcomes=%d failing=%d known=%s capped=%s wall=%.1fs exit=%d" % (
        check.id, tier, merged["specs"], merged["evaluations"], merged["nontrivial"], len(merged["outcomes"]),
        merged["fail_count"], {k: v["count"] for k, v in merged["known"].items()}, merged["capped"], time.time() - t0, code))
    return code
