"""Driver programs shared by the differential checks (C05, C12b, C13, C14, C20):
the repository's own fixture scripts (with the sibling files they import) and a
set of hand written feature-dense programs."""
import glob, os, re

FIX = "/repo/laythe_vm/fixture"
SKIP = re.compile(r"benchmark|criterion|py_benchmark|rb_benchmark|lox_interpreter|demo|native_stack_overvflow|rand", re.I)


def fixtures(max_bytes=4000, subdirs=("language", "std_lib")):
    out = []
    for sd in subdirs:
        for p in sorted(glob.glob(os.path.join(FIX, sd, "**", "*.lay"), recursive=True)):
            if SKIP.search(p):
                continue
            try:
                src = open(p, encoding="utf8").read()
            except Exception:
                continue
            if len(src) > max_bytes:
                continue
            files = {p: src}
            if "import self" in src or "import " in src:
                d = os.path.dirname(p)
                for q in glob.glob(os.path.join(d, "**", "*.lay"), recursive=True):
                    if q != p:
                        try:
                            files[q] = open(q, encoding="utf8").read()
                        except Exception:
                            pass
            out.append((os.path.relpath(p, FIX), files, p))
    return out


RICH = [
    ("closures", """
fn counter() { let n = 0; return || { n += 1; return n; }; }
let a = counter(); let b = counter();
print(a(), a(), b());
let fs = []; for i in 3.times() { let j = i * 2; fs.push(|| j + i); }
print(fs[0](), fs[1](), fs[2]());
fn outer(x) { fn mid(y) { fn inner(z) { return x + y + z; } return inner; } return mid; }
print(outer('a')('b')('c'));
"""),
    ("classes", """
class A { init(x) { self.x = x; self.l = [x]; } get() { return @x; } name() { return 'A'; } both() { return self.name() + self.get().str(); } }
class B : A { init(x, y) { super.init(x); self.y = y; } name() { return 'B'; } get() { return super.get() + @y; } static make() { return B(1, 2); } }
let objs = [A(1), B(2, 3), A(4), B.make()];
for o in objs { print(o.both(), o.l); }
let m = objs[1].both; print(m());
class F { init() { self.call = || 'field'; } call() { return 'method'; } }
print(F().call());
try { objs[0].nope; } catch e { print(e.cls().name()); }
try { objs[0].zzz = 1; } catch e { print(e.cls().name()); }
"""),
    ("exceptions", """
fn thrower(n) { if n == 0 { raise ValueError('bottom'); } return thrower(n - 1); }
fn guard(a, b) { let l = [a, b]; try { thrower(3); } catch e: ValueError { l.push(e.message); } return l; }
print(guard(1, 2));
fn nested(a) { try { try { raise Error('in'); } catch e: ValueError { print('wrong'); } } catch e { print('outer', e.message, a); } }
nested('p');
let i = 0; while i < 3 { i += 1; try { if i == 2 { continue; } [][i]; } catch e: IndexError { print('idx', i); } }
try { [1, 2].iter().each(|x| { raise Error('cb' + x.str()); }); } catch e { print(e.message, e.backTrace.len() > 0); }
let e2 = Error('outer', Error('inner')); print(e2.inner.message);
"""),
    ("collections", """
let l = [3, 1, 2]; l.push(4); l.insert(0, 9); print(l, l.len(), l.pop(), l.remove(0), l);
print(l.sort(|a, b| Number.cmp(a, b)), l.rev(), l.slice(1, 3), l.has(2), l.index(2));
let m = {'a': 1, 'b': [1, 2]}; m['c'] = (1, 2); print(m.len(), m['a'], m.get('zz'), m.has('b'), m.remove('a'), m.len());
let t = (1, 'two', [3]); print(t, t.len(), t[1], t.slice(0, 2), t.has(1));
let s = 'héllo wörld'; print(s.len(), s[1], s.slice(0, 5), s.upCase(), s.split(' '), s.has('wör'), '  x '.trim() + '|');
print(l.iter().map(|x| x * 2).filter(|x| x > 2).list(), 5.times().reduce(0, |a, x| a + x), [1, 2].iter().zip(['a', 'b'].iter()).list());
print(l.iter().skip(1).take(2).list(), l.iter().chain([7].iter()).len(), 'a,b'.split(',').iter().first(), 3.until(6).list());
let big = []; for i in 40.times() { big.push([i, 'v' + i.str()]); } print(big.len(), big[39], big.iter().map(|p| p[0]).reduce(0, |a, x| a + x));
"""),
    ("strings", """
let a = 'foo'; let b = 'f' + 'oo'; let c = 'xfoox'.slice(1, 4); let d = 'f${'o'}o'; let e = 'FOO'.downCase();
print(a == b, b == c, c == d, d == e, a != 'bar');
let m = {}; m[a] = 1; print(m[b], m[c], m[d], m.has(e));
let parts = 'foo bar foo'.split(' ').list(); print(parts[0] == parts[2], [a].has(parts[2]), (a, 1).index(parts[0]));
let n = 12.5; print(n.str() == '12.5', '${n}' == '12.5', Number.parse('12.5') == n);
let acc = ''; for ch in 'abc' { acc = ch + acc; } print(acc, acc == 'cba', acc < 'cbb', acc >= 'cba');
"""),
    ("channels", """
let c = chan(2); let done = chan();
fn producer(c, n) { for i in n.times() { c <- i; } c.close(); }
fn consumer(c, done) { let sum = 0; let v = <- c; while v != nil { sum += v; v = <- c; } done <- sum; }
launch producer(c, 5); launch consumer(c, done);
print(<- done);
let s = chan(); let back = chan(); fn echo(s, back) { let v = <- s; back <- v + 1; } launch echo(s, back); s <- 41; print(<- back);
print(c.len(), c.capacity());
"""),
    ("iterproto", """
class Range { init(a, b) { self.a = a; self.b = b; } iter() { return RangeIter(self.a, self.b); } }
class RangeIter { init(a, b) { self.i = a - 1; self.b = b; self.cur = nil; } next() { self.i += 1; self.cur = self.i; return self.i < self.b; } current() { return self.cur; } iter() { return self; } }
let t = 0; for x in Range(0, 5) { if x == 3 { continue; } t += x; } print(t);
class P { init(n) { self.n = n; } str() { return 'P<${self.n}>'; } }
print(P(1), [P(2)], 'x${P(3)}y', {1: P(4)});
"""),
    ("modules_std", """
import std.math; import std.math:{abs, max};
print(math.abs(-2), abs(-3), max(1, 5, 3), math.min(4, 2), math.pow(2, 10), math.rem(7, 3));
import std.regexp:{RegExp}; let r = RegExp('(a+)(b)?'); print(r.test('caab'), r.match('caab'), r.captures('caab'));
import std.io.stdio:{stdout}; stdout.write('w'); stdout.writeln('ln');
"""),
    ("gcpressure", """
class Node { init(v, next) { self.v = v; self.next = next; } }
fn build(n) { let head = nil; for i in n.times() { head = Node([i, 's' + i.str()], head); } return head; }
fn total(h) { let t = 0; while h != nil { t += h.v[0]; h = h.next; } return t; }
let keep = build(30); let junk = 0;
for i in 20.times() { junk += total(build(10)); let tmp = {'k': [i, i.str() + 'x'], i: (i, [i])}; junk += tmp['k'][0]; }
print(total(keep), junk, keep.v, keep.next.v[1]);
let fs = []; for i in 10.times() { let s = 'c' + i.str(); fs.push(|| s + '!'); } print(fs.iter().map(|f| f()).list());
"""),
]


def wide_programs():
    """boundary-width programs: more than 256 module symbols / constants / fields / methods, so that 16 bit operands above 255 occur"""
    out = []
    n = 300
    decl = "".join("let v%d = %d;\n" % (i, i) for i in range(n))
    body = ""
    for k in (0, 1, 43, 44, 255):
        w = k + 256 if k + 256 < n else k
        body += "v%d = 7; let r%d = v%d + 1; print(r%d);\nv%d = v%d + v%d; print(v%d, v%d);\n" % (k, k, w, k, w, w, k, w, k)
    body += "fn g() { v0 = 9; let a = v256 + v0; v256 = 1; let b = v0 + v256; return [a, b, v257, v1]; }\nprint(g());\n"
    out.append(("wide_modsyms", {"/v/main.lay": decl + body}, "/v/main.lay"))
    consts = "fn f() { let l = [" + ", ".join("%d.5" % i for i in range(n)) + "]; return l[1] + l[257] + l[299]; }\nprint(f());\n"
    out.append(("wide_consts", {"/v/main.lay": consts}, "/v/main.lay"))
    fields = "class W { init() { " + " ".join("self.f%d = %d;" % (i, i) for i in range(256)) + " } sum() { return self.f1 + self.f254 + self.f255; } set() { self.f1 = 5; self.f255 = 6; return self.f1 + self.f255; } }\nlet w = W(); print(w.sum(), w.set(), w.f1, w.f255, w.f0, w.f128);\n"
    out.append(("wide_fields", {"/v/main.lay": fields}, "/v/main.lay"))
    methods = "class M { " + " ".join("m%d() { return %d; }" % (i, i) for i in range(n)) + " }\nlet m = M(); print(m.m1(), m.m257(), m.m299(), m.m0(), m.m256());\n"
    out.append(("wide_methods", {"/v/main.lay": methods}, "/v/main.lay"))
    names = "".join("let n%d = {'k%d': %d}; print(n%d.len(), n%d['k%d']);\n" % (i, i, i, i, i, i) for i in range(0, n, 7))
    out.append(("wide_names", {"/v/main.lay": decl + names}, "/v/main.lay"))
    return out


def rich():
    return [(name, {"/v/main.lay": src.strip() + "\n"}, "/v/main.lay") for name, src in RICH] + wide_programs()
