"""Bounded-exhaustive exploration engine.

A check declares a finite space (`gen(tier)` yields specs in a fixed order),
how a spec becomes VM cases (`build`) and an oracle (`judge`). The engine shards
the space over worker processes (spec index mod W), runs every case through the
real Laythe pipeline (vlib.runner), merges the statistics, replays every failing
spec twice in a fresh process (identical observations required) and writes the
evidence file. Nothing is sampled: a run is either complete (`exhaustive`) or
reports the cap it hit.
"""
import json, os, sys, time, hashlib, traceback, pickle, base64, multiprocessing as mp
from . import runner as R

ROOT = R.ROOT
NPROC = int(os.environ.get("VERIF_JOBS", "0")) or min(16, os.cpu_count() or 4)


class Verdict:
    __slots__ = ("ok", "nontrivial", "outcome", "reason", "finding", "extra")

    def __init__(self, ok, nontrivial=True, outcome=None, reason="", finding=None, extra=None):
        self.ok = ok
        self.nontrivial = nontrivial
        self.outcome = outcome
        self.reason = reason
        self.finding = finding  # id of a known finding this failure is attributed to
        self.extra = extra or {}


class Check:
    id = "C00"
    level = "exploration"
    build_kind = "checked"
    horizon_ms = 5000
    rule = ""
    assumptions = []
    max_failures_kept = 40

    def gen(self, tier):
        raise NotImplementedError

    def build(self, spec):
        """-> (list of case dicts, ctx)"""
        raise NotImplementedError

    def judge(self, spec, ctx, results):
        raise NotImplementedError

    def describe(self, spec):
        return repr(spec)

    # counters a check wants summed over workers: dict name -> int
    def extra_counters(self):
        return {}


def _worker(check, tier, w, nw, deadline, q):
    try:
        st = {
            "specs": 0, "evaluations": 0, "nontrivial": 0, "outcomes": {}, "failures": [],
            "fail_count": 0, "known": {}, "samples": [], "capped": False, "restarts": 0,
            "classes": {}, "extra": {}, "last_index": -1, "known_keys": {},
        }
        rn = R.Runner(build=check.build_kind, horizon_ms=check.horizon_ms)
        pending = []  # (index, spec, ctx, ncases)
        cases = []

        def flush():
            nonlocal pending, cases
            if not pending:
                return
            results = rn.run_batch(cases)
            # a watchdog kill can be the load of the machine, not the case: such a case is run again, alone, in a fresh
            # process with a long horizon, and that observation is the one that is judged (bounded number of retries per worker)
            for k, r in enumerate(results):
                if r.get("class") == "timeout" and st["extra"].get("timeout_retries", 0) < 60:
                    st["extra"]["timeout_retries"] = st["extra"].get("timeout_retries", 0) + 1
                    try:
                        c2 = {kk: vv for kk, vv in cases[k].items()}
                        r2 = R.fresh_replay(c2, build=check.build_kind, horizon_ms=max(20000, 4 * check.horizon_ms), times=1)[0]
                        r2["id"] = r.get("id")
                        results[k] = r2
                    except Exception:
                        pass
            pos = 0
            for (idx, spec, ctx, n) in pending:
                rs = results[pos:pos + n]
                pos += n
                st["evaluations"] += n
                for r in rs:
                    c = r.get("class")
                    st["classes"][c] = st["classes"].get(c, 0) + 1
                try:
                    v = check.judge(spec, ctx, rs)
                except Exception:
                    v = Verdict(False, True, "judge-exception", "judge raised: " + traceback.format_exc()[-1500:])
                    v.extra["machinery"] = True
                st["specs"] += 1
                if v.nontrivial:
                    st["nontrivial"] += 1
                if v.outcome is not None:
                    k = v.outcome if isinstance(v.outcome, str) else json.dumps(v.outcome, sort_keys=True, default=str)
                    if len(st["outcomes"]) < 200000:
                        st["outcomes"][k] = st["outcomes"].get(k, 0) + 1
                for k2, n2 in v.extra.items():
                    if isinstance(n2, (int, float)) and not isinstance(n2, bool):
                        st["extra"][k2] = st["extra"].get(k2, 0) + n2
                if len(st["samples"]) < 3 and (st["specs"] % 97 == 1):
                    st["samples"].append({"spec": check.describe(spec), "cases": _trim_cases(cases_for(idx)), "observed": [_trim_res(r) for r in rs]})
                if not v.ok and v.finding:
                    key = apply_frozen(check, spec, v)
                    if v.finding:
                        st["known_keys"].setdefault(v.finding, []).append(key)
                if not v.ok:
                    if v.finding:
                        kf = st["known"].setdefault(v.finding, {"count": 0, "example": None})
                        kf["count"] += 1
                        if kf["example"] is None:
                            kf["example"] = {"spec": check.describe(spec), "reason": v.reason}
                    else:
                        st["fail_count"] += 1
                        if len(st["failures"]) < check.max_failures_kept:
                            st["failures"].append({
                                "index": idx, "spec": check.describe(spec), "reason": v.reason,
                                "cases": cases_for(idx), "observed": [_trim_res(r) for r in rs],
                                "spec_b64": base64.b64encode(pickle.dumps(spec)).decode(),
                                "machinery": bool(v.extra.get("machinery")),
                            })
            pending = []
            cases = []

        case_map = {}

        def cases_for(idx):
            return case_map.get(idx, [])

        for idx, spec in enumerate(check.gen(tier)):
            if idx % nw != w:
                continue
            if deadline and time.time() > deadline:
                st["capped"] = True
                break
            cs, ctx = check.build(spec)
            for k, c in enumerate(cs):
                c["id"] = [idx, k]
            case_map[idx] = cs
            pending.append((idx, spec, ctx, len(cs)))
            cases.extend(cs)
            st["last_index"] = idx
            if len(cases) >= 48:
                flush()
                case_map.clear()
        flush()
        rn.close()
        st["restarts"] = rn.restarts
        for k, v in check.extra_counters().items():
            st["extra"][k] = st["extra"].get(k, 0) + v
        q.put((w, st))
    except Exception:
        q.put((w, {"error": traceback.format_exc()}))


def apply_frozen(check, spec, v):
    """a failure inside the region of a known finding is attributed to it only if this very input is among the recorded failing inputs"""
    key = spec_key(check, spec)
    if v.extra.get("shape"):
        key = key + "#" + str(v.extra["shape"])  # the same input failing in another place is another input
    frozen = getattr(check, "frozen", None)
    if v.finding and frozen is not None and key not in frozen.get(v.finding, ()):
        v.reason = "matches the guard of %s but this input is not among its recorded failing inputs (known_regions): %s" % (v.finding, v.reason)
        v.finding = None
    return key


def spec_key(check, spec):
    return hashlib.sha1(check.describe(spec).encode("utf8", "replace")).hexdigest()[:12]


def _trim(s, n=600):
    return s if len(s) <= n else s[:n] + "...[%d more]" % (len(s) - n)


def _trim_res(r):
    keep = {}
    for k in ("class", "code", "out", "err", "panic", "signal", "allocs", "collections", "mismatch", "first_mismatch"):
        if k in r:
            v = r[k]
            keep[k] = _trim(v) if isinstance(v, str) else v
    return keep


def _trim_cases(cs):
    out = []
    for c in cs:
        d = {k: v for k, v in c.items() if k not in ("id",)}
        if "src" in d:
            d["src"] = _trim(d["src"], 1200)
        if "files" in d:
            d["files"] = {k: _trim(v, 600) for k, v in d["files"].items()}
        out.append(d)
    return out


def explore(check, tier, cap_s=None, nproc=None):
    """run the whole space; returns merged stats"""
    nproc = nproc or NPROC
    t0 = time.time()
    deadline = (t0 + cap_s) if cap_s else None
    if not os.environ.get("VERIF_FREEZE") and not hasattr(check, "frozen"):
        from . import report as _report
        check.frozen = _report.load_frozen(check.id)
    ctx = mp.get_context("fork")
    q = ctx.Queue()
    procs = [ctx.Process(target=_worker, args=(check, tier, w, nproc, deadline, q)) for w in range(nproc)]
    for p in procs:
        p.start()
    parts = []
    for _ in procs:
        parts.append(q.get())
    for p in procs:
        p.join()
    merged = {"specs": 0, "evaluations": 0, "nontrivial": 0, "outcomes": {}, "failures": [], "fail_count": 0,
              "known": {}, "samples": [], "capped": False, "restarts": 0, "classes": {}, "extra": {}, "errors": []}
    for w, st in sorted(parts, key=lambda x: x[0]):
        if "error" in st:
            merged["errors"].append(st["error"])
            continue
        for k in ("specs", "evaluations", "nontrivial", "fail_count", "restarts"):
            merged[k] += st[k]
        merged["capped"] |= st["capped"]
        for k, v in st["outcomes"].items():
            merged["outcomes"][k] = merged["outcomes"].get(k, 0) + v
        for k, v in st["classes"].items():
            merged["classes"][k] = merged["classes"].get(k, 0) + v
        for k, v in st["extra"].items():
            merged["extra"][k] = merged["extra"].get(k, 0) + v
        merged["failures"].extend(st["failures"])
        for fid, ks in st.get("known_keys", {}).items():
            merged.setdefault("known_keys", {}).setdefault(fid, []).extend(ks)
        for fid, kf in st["known"].items():
            m = merged["known"].setdefault(fid, {"count": 0, "example": None})
            m["count"] += kf["count"]
            if m["example"] is None:
                m["example"] = kf["example"]
        if len(merged["samples"]) < 4:
            merged["samples"].extend(st["samples"][:2])
    merged["failures"].sort(key=lambda f: f["index"])
    merged["wall_s"] = time.time() - t0
    return merged


def _map_worker(cases, w, nw, build, horizon_ms, q):
    try:
        rn = R.Runner(build=build, horizon_ms=horizon_ms)
        mine = [(i, c) for i, c in enumerate(cases) if i % nw == w]
        out = []
        for k in range(0, len(mine), 24):
            chunk = mine[k:k + 24]
            cs = []
            for i, c in chunk:
                c = dict(c)
                c["id"] = i
                cs.append(c)
            rs = rn.run_batch(cs)
            for k, r in enumerate(rs):
                if r.get("class") == "timeout":  # see _worker: load of the machine or the case? run it again alone with a long horizon
                    try:
                        rs[k] = R.fresh_replay(dict(cs[k]), build=build, horizon_ms=max(20000, 4 * horizon_ms), times=1)[0]
                    except Exception:
                        pass
            for (i, _), r in zip(chunk, rs):
                out.append((i, r))
        rn.close()
        q.put((w, out, None))
    except Exception:
        q.put((w, [], traceback.format_exc()))


def map_cases(cases, build="checked", horizon_ms=5000, nproc=None):
    """run a list of cases in parallel; returns results in input order"""
    nproc = min(nproc or NPROC, max(1, len(cases)))
    ctx = mp.get_context("fork")
    q = ctx.Queue()
    procs = [ctx.Process(target=_map_worker, args=(cases, w, nproc, build, horizon_ms, q)) for w in range(nproc)]
    for p in procs:
        p.start()
    res = [None] * len(cases)
    errs = []
    for _ in procs:
        w, out, err = q.get()
        if err:
            errs.append(err)
        for i, r in out:
            res[i] = r
    for p in procs:
        p.join()
    if errs:
        raise RuntimeError("map_cases worker failed:\n" + errs[0])
    return res
