"""layref — a deliberately boring reference semantics for the fragment of Laythe the
properties talk about: a tree-walking evaluator over the GENERATOR's AST (never over
Laythe's parser output) plus a pretty printer with selectable layouts.

AST: nested Python lists  [tag, ...fields]. Statements may carry their source line
(assigned by the printer) in a side table keyed by id(node).

It defines only what the property statements define (see DESIGN.md 2.4 and
appendix A): messages of VM-originated errors are not modelled (class only), map
iteration order is insertion order here and must not be relied on by generators.
"""
from decimal import Decimal
import math

# ------------------------------------------------------------------ values


class LList:
    __slots__ = ("items",)

    def __init__(self, items):
        self.items = items


class LTuple:
    __slots__ = ("items",)

    def __init__(self, items):
        self.items = tuple(items)


class LMap:
    __slots__ = ("keys", "vals")

    def __init__(self):
        self.keys = []
        self.vals = []

    def find(self, k):
        for i, kk in enumerate(self.keys):
            if values_equal(kk, k):
                return i
        return -1


class LChan:
    __slots__ = ("q", "cap", "closed")

    def __init__(self, cap):
        self.q = []
        self.cap = cap
        self.closed = False


class ModuleObj:
    __slots__ = ("path", "exports", "env")

    def __init__(self, path):
        self.path = path
        self.exports = set()
        self.env = [{}]


class Cell:
    __slots__ = ("v",)

    def __init__(self, v):
        self.v = v


class Closure:
    __slots__ = ("name", "params", "body", "env", "kind", "cls", "is_expr", "module")

    def __init__(self, name, params, body, env, kind="fn", cls=None, is_expr=False, module=None):
        self.name = name
        self.params = params
        self.body = body
        self.env = env
        self.kind = kind  # fn | method | init | static | lambda
        self.cls = cls
        self.is_expr = is_expr
        self.module = module


class LClass:
    __slots__ = ("name", "parent", "methods", "statics", "fields")

    def __init__(self, name, parent):
        self.name = name
        self.parent = parent
        self.methods = {}
        self.statics = {}
        self.fields = None

    def find(self, name):
        c = self
        while c is not None:
            if name in c.methods:
                return c.methods[name]
            c = c.parent
        return None

    def is_sub(self, other):
        c = self
        while c is not None:
            if c is other:
                return True
            c = c.parent
        return False


class Instance:
    __slots__ = ("cls", "fields")

    def __init__(self, cls):
        self.cls = cls
        self.fields = {}


class Bound:
    __slots__ = ("recv", "fn")

    def __init__(self, recv, fn):
        self.recv = recv
        self.fn = fn


class Native:
    __slots__ = ("name", "fn", "arity")

    def __init__(self, name, fn, arity):
        self.name = name
        self.fn = fn
        self.arity = arity


class Stream:
    """lazy iterator: next() -> bool, current"""
    __slots__ = ("gen", "cur", "done")

    def __init__(self, gen):
        self.gen = gen
        self.cur = None
        self.done = False

    def next(self):
        if self.done:
            self.cur = None
            return False
        try:
            self.cur = next(self.gen)
            return True
        except StopIteration:
            self.done = True
            self.cur = None
            return False


class LErr(Exception):
    """a Laythe error in flight. inst is an Instance of an error class"""

    def __init__(self, inst):
        self.inst = inst


class Exit(Exception):
    def __init__(self, code):
        self.code = code


class Unsupported(Exception):
    """the reference does not define this: the generator must not produce it"""


class BreakSig(Exception):
    pass


class ContinueSig(Exception):
    pass


class ReturnSig(Exception):
    def __init__(self, v):
        self.v = v


def fmt_num(x):
    if x != x:
        return "NaN"
    if x == math.inf:
        return "inf"
    if x == -math.inf:
        return "-inf"
    if x == 0:
        return "-0" if math.copysign(1, x) < 0 else "0"
    s = format(Decimal(repr(x)), "f")
    if "." in s:
        s = s.rstrip("0").rstrip(".")
    return s


def truthy(v):
    return not (v is None or v is False)


def values_equal(a, b):
    if isinstance(a, bool) or isinstance(b, bool):
        return isinstance(a, bool) and isinstance(b, bool) and a == b
    if isinstance(a, float) and isinstance(b, float):
        return a == b
    if isinstance(a, str) and isinstance(b, str):
        return a == b
    if a is None and b is None:
        return True
    if isinstance(a, (float, str)) or isinstance(b, (float, str)) or a is None or b is None:
        return False
    return a is b


def declared_fields(body):
    """names assigned on self anywhere in an initialiser's body (not inside nested functions)"""
    out = []

    def ex(e):
        if not isinstance(e, list) or not e:
            return
        t = e[0]
        if t in ("set",) and e[1] == ["self"]:
            if e[2] not in out:
                out.append(e[2])
        if t == "atset":
            if e[1] not in out:
                out.append(e[1])
        if t == "opset" and e[2] == ["self"]:
            if e[3] not in out:
                out.append(e[3])
        if t == "lambda":
            return
        for x in e[1:]:
            if isinstance(x, list):
                if x and isinstance(x[0], str):
                    ex(x)
                else:
                    for y in x:
                        if isinstance(y, list):
                            ex(y)
                        elif isinstance(y, tuple):
                            for z in y:
                                ex(z)

    def st(s):
        t = s[0]
        if t in ("fn", "class"):
            return
        for x in s[1:]:
            if isinstance(x, list):
                if x and isinstance(x[0], str):
                    if x[0] in STMT_TAGS:
                        st(x)
                    else:
                        ex(x)
                else:
                    for y in x:
                        if isinstance(y, list) and y and isinstance(y[0], str):
                            if y[0] in STMT_TAGS:
                                st(y)
                            else:
                                ex(y)
    for s in body:
        st(s)
    return out


STMT_TAGS = {"let", "expr", "print", "if", "while", "for", "break", "continue", "return", "fn", "class", "try", "trym", "raise", "implicit", "import", "export", "raw"}

# ------------------------------------------------------------------ interpreter

ERROR_CLASSES = ["Error", "RuntimeError", "TypeError", "ValueError", "IndexError", "KeyError", "PropertyError", "ImportError",
                 "ExportError", "SyntaxError", "MethodNotFoundError", "DeadlockError", "AssertError", "FormatError"]


class Interp:
    def __init__(self, path="/v/main.lay", lines=None, files=None):
        self.out = []
        self.path = path
        self.lines = lines or {}
        self.files = files or {}
        self.frames = []  # [name, current line, path]
        self.classes = {}
        base = LClass("Object", None)
        self.classes["Object"] = base
        err = LClass("Error", base)
        self.classes["Error"] = err
        for n in ERROR_CLASSES[1:]:
            self.classes[n] = LClass(n, err)
        self.globals = {}
        for n, c in self.classes.items():
            self.globals[n] = Cell(c)
        self.modules = {}
        self.steps = 0
        from . import layref_lib
        layref_lib.install_globals(self)

        def _exit(I, r, a):
            if len(a) > 1 or (a and not isinstance(a[0], float)):
                I.throw("RuntimeError")
            raise Exit(int(a[0]) if a else 0)
        self.globals["exit"] = Cell(Native("exit", _exit, None))

    # ---- errors
    def make_error(self, cls_name, message, inner=None):
        inst = Instance(self.classes[cls_name])
        inst.fields = {"message": message, "backTrace": LList([]), "inner": inner}
        return inst

    def throw(self, cls_name, message="?"):
        inst = self.make_error(cls_name, message)
        inst.fields["_vm"] = True  # message not modelled
        self.stamp(inst)
        raise LErr(inst)

    def stamp(self, inst):
        """record the call chain at the raise (innermost first)"""
        inst.fields["_chain"] = [(f[0], f[1], f[2]) for f in reversed(self.frames)]

    # ---- printing
    def to_str(self, v, top=True):
        if v is None:
            return "nil"
        if v is True:
            return "true"
        if v is False:
            return "false"
        if isinstance(v, float):
            return fmt_num(v)
        if isinstance(v, str):
            return v if top else "'" + v + "'"
        if isinstance(v, LList):
            return "[" + ", ".join(self.to_str(x, False) for x in v.items) + "]"
        if isinstance(v, LTuple):
            return "(" + ", ".join(self.to_str(x, False) for x in v.items) + ")"
        if isinstance(v, LMap):
            if not v.keys:
                return "{}"
            return "{ " + ", ".join(self.to_str(k, False) + ": " + self.to_str(x, False) for k, x in zip(v.keys, v.vals)) + " }"
        if isinstance(v, Instance):
            m = v.cls.find("str")
            if m is not None:
                r = self.call_value(Bound(v, m), [])
                if not isinstance(r, str):
                    raise Unsupported("str() returned a non string")
                return r
            raise Unsupported("printing an instance address")
        raise Unsupported("printing %r" % type(v))

    # ---- environments: list of dicts name -> Cell
    def lookup(self, env, name):
        for scope in reversed(env):
            if name in scope:
                return scope[name]
        if name in self.globals:
            return self.globals[name]
        raise Unsupported("undefined name " + name)

    # ---- calls
    def call_value(self, f, args, line=None):
        if isinstance(f, Closure):
            return self.call_closure(f, None, args)
        if isinstance(f, Bound):
            if isinstance(f.fn, Closure):
                return self.call_closure(f.fn, f.recv, args)
            if f.fn.arity is not None and len(args) != f.fn.arity:
                self.throw("RuntimeError")
            return f.fn.fn(self, f.recv, args)
        if isinstance(f, LClass):
            return self.instantiate(f, args)
        if isinstance(f, Native):
            if f.arity is not None and len(args) != f.arity:
                self.throw("RuntimeError")
            return f.fn(self, None, args)
        self.throw("RuntimeError", "not callable")

    def instantiate(self, cls, args):
        if cls.is_sub(self.classes["Error"]) and cls.find("init") is None:
            # built in Error.init(message, inner = nil)
            if not (1 <= len(args) <= 2) or not isinstance(args[0], str):
                self.throw("RuntimeError")
            inst = Instance(cls)
            inst.fields = {"message": args[0], "backTrace": LList([]), "inner": args[1] if len(args) > 1 else None}
            for f in (cls.fields or []):
                inst.fields.setdefault(f, None)
            return inst
        inst = Instance(cls)
        for f in (cls.fields or []):
            inst.fields[f] = None
        if cls.is_sub(self.classes["Error"]):
            inst.fields.setdefault("message", None)
            inst.fields.setdefault("backTrace", LList([]))
            inst.fields.setdefault("inner", None)
        init = cls.find("init")
        if init is None:
            if args:
                self.throw("RuntimeError")
            return inst
        self.call_closure(init, inst, args)
        return inst

    def call_closure(self, f, recv, args):
        if len(args) != len(f.params):
            self.throw("RuntimeError", "arity")
        if len(self.frames) >= 255:
            self.throw("RuntimeError", "Stack overflow")
        scope = {}
        if recv is not None or f.kind in ("method", "init"):
            scope["self"] = Cell(recv)
        for p, a in zip(f.params, args):
            scope[p] = Cell(a)
        env = f.env + [scope]
        self.frames.append([f.name, None, f.module or self.path])
        try:
            if f.is_expr:
                return self.eval(f.body, env)
            try:
                last = self.exec_block(f.body, env, implicit=True)
            except ReturnSig as r:
                return recv if f.kind == "init" else r.v
            return recv if f.kind == "init" else last
        finally:
            self.frames.pop()

    # ---- statements
    def exec_block(self, stmts, env, implicit=False, new_scope=False):
        if new_scope:
            env = env + [{}]
        last = None
        n = len(stmts)
        for k, s in enumerate(stmts):
            if implicit and k == n - 1 and s[0] == "implicit":
                return self.eval(s[1], env)
            self.exec(s, env)
        return last

    def set_line(self, s):
        ln = self.lines.get(id(s))
        if ln is not None and self.frames:
            self.frames[-1][1] = ln

    def exec(self, s, env):
        self.steps += 1
        if self.steps > 2000000:
            raise Unsupported("reference step limit")
        self.set_line(s)
        t = s[0]
        if t == "let":
            v = self.eval(s[2], env) if s[2] is not None else None
            if isinstance(v, Closure) and v.kind == "lambda" and v.name == "lambda" and s[2][0] == "lambda":
                v.name = s[1]  # a lambda bound by let is reported under the variable's name
            env[-1][s[1]] = Cell(v)
        elif t == "expr":
            self.eval(s[1], env)
        elif t == "print":
            vals = [self.eval(e, env) for e in s[1]]
            self.out.append(" ".join(self.to_str(v) for v in vals) + "\n")
        elif t == "if":
            if truthy(self.eval(s[1], env)):
                self.exec_block(s[2], env, new_scope=True)
            elif s[3] is not None:
                self.exec_block(s[3], env, new_scope=True)
        elif t == "while":
            while truthy(self.eval(s[1], env)):
                try:
                    self.exec_block(s[2], env, new_scope=True)
                except BreakSig:
                    break
                except ContinueSig:
                    continue
        elif t == "for":
            it = self.make_iter(self.eval(s[2], env))
            cell = Cell(None)  # one variable for the whole loop
            loop_env = env + [{s[1]: cell}]
            while True:
                if not self.iter_next(it):
                    break
                cell.v = self.iter_current(it)
                try:
                    self.exec_block(s[3], loop_env, new_scope=True)
                except BreakSig:
                    break
                except ContinueSig:
                    continue
        elif t == "break":
            raise BreakSig()
        elif t == "continue":
            raise ContinueSig()
        elif t == "return":
            raise ReturnSig(self.eval(s[1], env) if s[1] is not None else None)
        elif t == "fn":
            cell = Cell(None)
            env[-1][s[1]] = cell
            cell.v = Closure(s[1], s[2], s[3], env, "fn", module=self.frames[-1][2] if self.frames else self.path)
        elif t == "class":
            parent = self.lookup(env, s[2]).v if s[2] else self.classes["Object"]
            if not isinstance(parent, LClass):
                self.throw("RuntimeError")
            cls = LClass(s[1], parent)
            cell = Cell(cls)
            env[-1][s[1]] = cell
            cls.fields = list(parent.fields or [])
            menv = env + [{"__class__": Cell(cls)}]
            for kind, name, params, body in s[3]:
                if name == "init" and kind != "static":
                    for f in declared_fields(body):
                        if f not in cls.fields:
                            cls.fields.append(f)
            for kind, name, params, body in s[3]:
                k = "static" if kind == "static" else ("init" if name == "init" else "method")
                c = Closure(name, params, body, menv, k, cls, module=self.frames[-1][2] if self.frames else self.path)
                if kind == "static":
                    cls.statics[name] = c
                else:
                    cls.methods[name] = c
        elif t == "try":
            # ['try', body, var, class name|None, handler]
            depth = len(self.frames)
            try:
                self.exec_block(s[1], env, new_scope=True)
            except LErr as e:
                want = self.lookup(env, s[3]).v if s[3] else self.classes["Error"]
                if not isinstance(want, LClass):
                    raise Unsupported("catch filter is not a class")
                if not e.inst.cls.is_sub(want):
                    raise
                del self.frames[depth:]
                self.fill_backtrace(e.inst, depth)
                self.set_line(s)
                self.exec_block(s[4], env + [{s[2]: Cell(e.inst)}], new_scope=False)
        elif t == "trym":
            # ['trym', body, [(var, class name|None, handler), ...]]: the first clause whose class matches runs
            depth = len(self.frames)
            try:
                self.exec_block(s[1], env, new_scope=True)
            except LErr as e:
                for var, cname, handler in s[2]:
                    want = self.lookup(env, cname).v if cname else self.classes["Error"]
                    if not isinstance(want, LClass):
                        raise Unsupported("catch filter is not a class")
                    if e.inst.cls.is_sub(want):
                        del self.frames[depth:]
                        self.fill_backtrace(e.inst, depth)
                        self.set_line(s)
                        self.exec_block(handler, env + [{var: Cell(e.inst)}], new_scope=False)
                        break
                else:
                    raise
        elif t == "raise":
            v = self.eval(s[1], env)
            if not (isinstance(v, Instance) and v.cls.is_sub(self.classes["Error"])):
                self.throw("RuntimeError")
            self.set_line(s)
            self.stamp(v)
            raise LErr(v)
        elif t == "implicit":
            self.eval(s[1], env)
        elif t == "import":
            self.do_import(s, env)
        elif t == "export":
            self.exec(s[1], env)
            self.cur_exports.add(s[1][1])
        else:
            raise Unsupported("statement " + t)

    def fill_backtrace(self, inst, catch_depth):
        chain = inst.fields.get("_chain") or []
        # frames between the raise and the catching frame (inclusive), innermost first
        keep = chain[:max(0, len(chain) - catch_depth + 1)]
        inst.fields["backTrace"] = LList(["%s:%s in %s" % (p, ln, "script" if nm == "script" else nm + "()") for nm, ln, p in keep])

    # ---- iteration protocol
    def make_iter(self, v):
        if isinstance(v, Stream):
            return v
        if isinstance(v, LList):
            return Stream(iter(list(v.items)) if False else self._list_gen(v))
        if isinstance(v, LTuple):
            return Stream(iter(v.items))
        if isinstance(v, str):
            return Stream(iter(list(v)))
        if isinstance(v, LMap):
            return Stream(iter([LList([k, x]) for k, x in zip(list(v.keys), list(v.vals))]))
        if isinstance(v, Instance):
            m = v.cls.find("iter")
            if m is None:
                self.throw("PropertyError")
            it = self.call_value(Bound(v, m), [])
            if isinstance(it, Stream):
                return it
            if isinstance(it, Instance):
                return it
            raise Unsupported("iter() returned a non iterator")
        self.throw("PropertyError")

    def _list_gen(self, l):
        i = 0
        while i < len(l.items):
            yield l.items[i]
            i += 1

    def iter_next(self, it):
        if isinstance(it, Stream):
            return it.next()
        m = it.cls.find("next")
        if m is None:
            self.throw("PropertyError")
        return truthy(self.call_value(Bound(it, m), []))

    def iter_current(self, it):
        if isinstance(it, Stream):
            return it.cur
        m = it.cls.find("current")
        if m is None:
            self.throw("PropertyError")
        return self.call_value(Bound(it, m), [])

    # ---- expressions
    def eval(self, e, env):
        t = e[0]
        if t == "nil":
            return None
        if t == "bool":
            return e[1]
        if t == "num":
            return float(e[1])
        if t == "str":
            return e[1]
        if t == "var":
            return self.lookup(env, e[1]).v
        if t == "self":
            return self.lookup(env, "self").v
        if t == "paren":
            return self.eval(e[1], env)
        if t == "un":
            v = self.eval(e[2], env)
            if e[1] == "!":
                return not truthy(v)
            if not isinstance(v, float):
                self.throw("RuntimeError")
            return -v
        if t == "bin":
            a = self.eval(e[2], env)
            b = self.eval(e[3], env)
            return self.binop(e[1], a, b)
        if t == "and":
            a = self.eval(e[1], env)
            return self.eval(e[2], env) if truthy(a) else a
        if t == "or":
            a = self.eval(e[1], env)
            return a if truthy(a) else self.eval(e[2], env)
        if t == "tern":
            return self.eval(e[2], env) if truthy(self.eval(e[1], env)) else self.eval(e[3], env)
        if t == "assign":
            v = self.eval(e[2], env)
            self.lookup(env, e[1]).v = v
            return v
        if t == "opassign":
            cell = self.lookup(env, e[2])
            v = self.binop(e[1], cell.v, self.eval(e[3], env))
            cell.v = v
            return v
        if t == "call":
            f = self.eval(e[1], env)
            args = [self.eval(a, env) for a in e[2]]
            return self.call_value(f, args)
        if t == "lambda":
            return Closure("lambda", e[1], e[2], env, "lambda", is_expr=e[3], module=self.frames[-1][2] if self.frames else self.path)
        if t == "list":
            return LList([self.eval(x, env) for x in e[1]])
        if t == "tuple":
            return LTuple([self.eval(x, env) for x in e[1]])
        if t == "map":
            m = LMap()
            for k, v in e[1]:
                kk = self.eval(k, env)
                vv = self.eval(v, env)
                self.map_set(m, kk, vv)
            return m
        if t == "interp":
            out = ""
            for p in e[1]:
                if isinstance(p, str):
                    out += p
                else:
                    out += self.to_str(self.eval(p, env))
            return out
        if t == "index":
            return self.index_get(self.eval(e[1], env), self.eval(e[2], env))
        if t == "indexset":
            o = self.eval(e[1], env)
            v = self.eval(e[3], env)
            i = self.eval(e[2], env)
            return self.index_set(o, i, v)
        if t == "get":
            return self.get_prop(self.eval(e[1], env), e[2])
        if t == "set":
            o = self.eval(e[1], env)
            v = self.eval(e[3], env)
            return self.set_prop(o, e[2], v)
        if t == "opindex":
            # ['opindex', op, obj, index, value]: the index expression is evaluated twice by the language (generators keep it pure)
            o = self.eval(e[2], env)
            i = self.eval(e[3], env)
            cur = self.index_get(o, i)
            v = self.binop(e[1], cur, self.eval(e[4], env))
            return self.index_set(o, i, v)
        if t == "rawnum":
            return float(e[2])
        if t == "rawstr":
            return e[2]
        if t == "opset":
            o = self.eval(e[2], env)
            cur = self.get_prop(o, e[3])
            v = self.binop(e[1], cur, self.eval(e[4], env))
            return self.set_prop(o, e[3], v)
        if t == "invoke":
            o = self.eval(e[1], env)
            args = [self.eval(a, env) for a in e[3]]
            return self.invoke(o, e[2], args)
        if t == "at":
            return self.get_prop(self.lookup(env, "self").v, e[1])
        if t == "atset":
            v = self.eval(e[2], env)
            return self.set_prop(self.lookup(env, "self").v, e[1], v)
        if t == "chan":
            cap = self.eval(e[1], env) if e[1] is not None else None
            return LChan(int(cap) if cap is not None else 0)
        if t == "send":
            ch = self.eval(e[1], env)
            v = self.eval(e[2], env)
            if not isinstance(ch, LChan) or ch.closed or len(ch.q) >= ch.cap:
                raise Unsupported("send that would block or fail")
            ch.q.append(v)
            return v
        if t == "recv":
            ch = self.eval(e[1], env)
            if not isinstance(ch, LChan) or not ch.q:
                raise Unsupported("receive that would block")
            return ch.q.pop(0)
        if t == "super":
            # ['super', name, args|None]
            me = self.lookup(env, "self").v
            cls = self.lookup(env, "__class__").v
            m = cls.parent.find(e[1]) if cls.parent else None
            if m is None:
                self.throw("PropertyError")
            if e[2] is None:
                return Bound(me, m)
            args = [self.eval(a, env) for a in e[2]]
            return self.call_closure(m, me, args)
        raise Unsupported("expression " + t)

    def binop(self, op, a, b):
        if op in ("==", "!="):
            r = values_equal(a, b)
            return r if op == "==" else not r
        if op == "+":
            if isinstance(a, float) and isinstance(b, float):
                return a + b
            if isinstance(a, str) and isinstance(b, str):
                return a + b
            self.throw("RuntimeError")
        if op in "-*/":
            if not (isinstance(a, float) and isinstance(b, float)):
                self.throw("RuntimeError")
            if op == "-":
                return a - b
            if op == "*":
                return a * b
            if b == 0:
                if a == 0 or a != a:
                    return math.nan
                return math.copysign(math.inf, a) * math.copysign(1, b)
            return a / b
        if op in ("<", "<=", ">", ">="):
            if isinstance(a, float) and isinstance(b, float):
                pass
            elif isinstance(a, str) and isinstance(b, str):
                a, b = a.encode("utf8"), b.encode("utf8")
            else:
                self.throw("RuntimeError")
            return {"<": a < b, "<=": a <= b, ">": a > b, ">=": a >= b}[op]
        raise Unsupported("operator " + op)

    # ---- properties
    def get_prop(self, o, name):
        if isinstance(o, Instance):
            if name in o.fields and not name.startswith("_"):
                return o.fields[name]
            m = o.cls.find(name)
            if m is not None:
                return Bound(o, m)
            if o.cls.is_sub(self.classes["Error"]) and name in ("message", "backTrace", "inner"):
                return o.fields.get(name)
            if name == "cls":
                return Bound(o, Native("cls", lambda I, r, a: r.cls, 0))
            if name == "isA?":
                def isa(I, r, a):
                    if len(a) != 1 or not isinstance(a[0], LClass):
                        raise Unsupported("isA? with a non class")
                    return r.cls.is_sub(a[0])
                return Bound(o, Native("isA?", isa, None))
            self.throw("PropertyError")
        if isinstance(o, ModuleObj):
            if name in o.exports:
                return o.env[0][name].v
            self.throw("PropertyError")
        if isinstance(o, LClass):
            c = o
            while c is not None:
                if name in c.statics:
                    return Bound(o, c.statics[name])
                c = c.parent
            if name == "name":
                return Bound(o, Native("name", lambda I, r, a: r.name, 0))
            if name == "superCls":
                return Bound(o, Native("superCls", lambda I, r, a: r.parent, 0))
            self.throw("PropertyError")
        m = self.builtin_method(o, name)
        if m is None:
            self.throw("PropertyError")
        return Bound(o, m)

    def set_prop(self, o, name, v):
        if isinstance(o, Instance):
            if name in o.fields and not name.startswith("_"):
                o.fields[name] = v
                return v
            self.throw("PropertyError")
        self.throw("RuntimeError")

    def invoke(self, o, name, args):
        if isinstance(o, Instance):
            if name in o.fields and not name.startswith("_"):
                return self.call_value(o.fields[name], args)
            m = o.cls.find(name)
            if m is None:
                return self.call_value(self.get_prop(o, name), args)
            return self.call_closure(m, o, args)
        f = self.get_prop(o, name)
        return self.call_value(f, args)

    def builtin_method(self, o, name):
        from . import layref_lib
        return layref_lib.method(self, o, name)

    # ---- containers
    def norm_index(self, i, n):
        if not isinstance(i, float):
            self.throw("RuntimeError")
        if i != int(i) if not (i != i or math.isinf(i)) else True:
            self.throw("IndexError")
        k = int(i)
        if k < 0:
            k += n
        if k < 0 or k >= n:
            self.throw("IndexError")
        return k

    def index_get(self, o, i):
        if isinstance(o, LList):
            return o.items[self.norm_index(i, len(o.items))]
        if isinstance(o, LTuple):
            return o.items[self.norm_index(i, len(o.items))]
        if isinstance(o, str):
            return o[self.norm_index(i, len(o))]
        if isinstance(o, LMap):
            k = o.find(i)
            if k < 0:
                self.throw("KeyError")
            return o.vals[k]
        self.throw("PropertyError")

    def index_set(self, o, i, v):
        if isinstance(o, LList):
            o.items[self.norm_index(i, len(o.items))] = v
            return v
        if isinstance(o, LMap):
            self.map_set(o, i, v)
            return v
        self.throw("PropertyError")

    def map_set(self, m, k, v):
        if isinstance(k, float) and k != k:
            # NaN never equals itself: every insertion creates a new entry
            m.keys.append(k)
            m.vals.append(v)
            return
        j = m.find(k)
        if j >= 0:
            m.vals[j] = v
        else:
            m.keys.append(k)
            m.vals.append(v)

    # ---- modules (C17)
    def do_import(self, s, env):
        """['import', text, {'path': [...], 'alias': name|None, 'symbols': [(name, alias|None)]|None}]; user modules only ('self.')"""
        spec = s[2]
        path = spec["path"]
        if path[0] != "self":
            raise Unsupported("import of a std module")
        mod = None
        # every prefix of the path is a module file of its own (self.dir.file needs dir.lay and dir/file.lay)
        for k in range(1, len(path)):
            fpath = "/v/" + "/".join(path[1:k + 1]) + ".lay"
            if fpath not in self.files:
                self.throw("ImportError")
            mod = self.load_module(fpath)
        if spec["symbols"] is None:
            env[-1][spec["alias"] or path[-1]] = Cell(mod)
        else:
            for name, alias in spec["symbols"]:
                if name not in mod.exports:
                    self.throw("ImportError")
                env[-1][alias or name] = Cell(mod.env[0][name].v)

    def load_module(self, fpath):
        if fpath in self.modules:
            return self.modules[fpath]
        mod = ModuleObj(fpath)
        self.modules[fpath] = mod   # registered before its body runs
        saved = getattr(self, "cur_exports", None)
        self.cur_exports = mod.exports
        self.frames.append(["script", None, fpath])
        try:
            self.exec_block(self.files[fpath], mod.env)
        finally:
            self.frames.pop()
            self.cur_exports = saved
        return mod

    # ---- program
    def run(self, stmts):
        """returns (class, stdout, error_class_name or None, error instance)"""
        env = [{}]
        self.frames = [["script", None, self.path]]
        self.cur_exports = set()
        try:
            self.exec_block(stmts, env)
            return "ok", "".join(self.out), None, None
        except LErr as e:
            return "runtime_error", "".join(self.out), e.inst.cls.name, e.inst
        except Exit as x:
            return "exit", "".join(self.out), x.code, None
        except (BreakSig, ContinueSig, ReturnSig):
            raise Unsupported("control signal escaped")
        except RecursionError:
            raise Unsupported("reference recursion limit")


# ------------------------------------------------------------------ printer

PREC = {"assign": 1, "tern": 2, "or": 3, "and": 4, "eq": 5, "cmp": 6, "term": 7, "factor": 8, "unary": 9, "call": 10, "atom": 11}
BINPREC = {"==": "eq", "!=": "eq", "<": "cmp", "<=": "cmp", ">": "cmp", ">=": "cmp", "+": "term", "-": "term", "*": "factor", "/": "factor"}


def num_lit(x):
    x = float(x)
    if x == int(x) and abs(x) < 1e15:
        return str(int(x))
    return fmt_num(x)


def str_lit(s):
    if "${" in s:
        raise Unsupported("string literal containing an interpolation start")
    return "'" + s.replace("\\", "\\\\").replace("'", "\\'").replace("\n", "\\n").replace("\t", "\\t").replace("\r", "\\r") + "'"


class Printer:
    """layout: 'min' minimal parentheses (own precedence table), 'full' every sub expression parenthesised,
    'redundant' minimal + one redundant pair around every operand, 'lines' one token per line (expressions only), 'comments'"""

    def __init__(self, layout="min", multiline_lambdas=False, marks=None):
        self.layout = layout
        self.lines = {}
        self.out = []
        self.line = 1
        self.multiline_lambdas = multiline_lambdas
        self.ends = {}
        self.marks = marks if marks is not None else []   # node ids, referenced by \x01<index>\x02 markers in the text

    # expression -> (text, precedence level)
    def ex(self, e):
        t = e[0]
        if t == "nil":
            return "nil", 11
        if t == "bool":
            return ("true" if e[1] else "false"), 11
        if t == "num":
            x = float(e[1])
            if x < 0 or (x == 0 and math.copysign(1, x) < 0):
                return "-" + num_lit(-x), 9
            return num_lit(x), 11
        if t == "str":
            return str_lit(e[1]), 11
        if t == "var":
            return e[1], 11
        if t == "self":
            return "self", 11
        if t == "paren":
            return "(" + self.ex(e[1])[0] + ")", 11
        if t == "un":
            return e[1] + self.sub(e[2], 9), 9
        if t == "bin":
            p = PREC[BINPREC[e[1]]]
            return self.sub(e[2], p) + " " + e[1] + " " + self.sub(e[3], p + 1), p
        if t == "and":
            return self.sub(e[1], 4) + " && " + self.sub(e[2], 5), 4
        if t == "or":
            return self.sub(e[1], 3) + " || " + self.sub(e[2], 4), 3
        if t == "tern":
            return self.sub(e[1], 3) + " ? " + self.sub(e[2], 2) + " : " + self.sub(e[3], 2), 2
        if t == "assign":
            return e[1] + " = " + self.sub(e[2], 1), 1
        if t == "opassign":
            return e[2] + " " + e[1] + "= " + self.sub(e[3], 1), 1
        if t == "call":
            return self.sub(e[1], 10) + "(" + ", ".join(self.sub(a, 1) for a in e[2]) + ")", 10
        if t == "lambda":
            ps = "|" + ", ".join(e[1]) + "|"
            if e[3]:
                body, bp = self.ex(e[2])
                if e[2][0] == "map":
                    body = "(" + body + ")"
                return ps + " " + body, 1
            if self.multiline_lambdas:
                p = Printer(self.layout if self.layout != "lines" else "min", True, self.marks)
                p.block(e[2], 1)
                return ps + " {\n" + "".join(p.out) + "}", 1
            return ps + " { " + self.inline_block(e[2]) + " }", 1
        if t == "list":
            return "[" + ", ".join(self.sub(x, 1) for x in e[1]) + "]", 11
        if t == "tuple":
            if len(e[1]) == 1:
                return "(" + self.sub(e[1][0], 1) + ",)", 11
            return "(" + ", ".join(self.sub(x, 1) for x in e[1]) + ")", 11
        if t == "map":
            return "{" + ", ".join(self.sub(k, 2) + ": " + self.sub(v, 1) for k, v in e[1]) + "}", 11
        if t == "interp":
            s = "'"
            for p in e[1]:
                if isinstance(p, str):
                    s += p.replace("\\", "\\\\").replace("'", "\\'").replace("$", "\\$")
                else:
                    s += "${" + self.ex(p)[0] + "}"
            return s + "'", 11
        if t == "index":
            return self.sub(e[1], 10) + "[" + self.ex(e[2])[0] + "]", 10
        if t == "indexset":
            return self.sub(e[1], 10) + "[" + self.ex(e[2])[0] + "] = " + self.sub(e[3], 1), 1
        if t == "get":
            return self.sub(e[1], 10) + "." + e[2], 10
        if t == "set":
            return self.sub(e[1], 10) + "." + e[2] + " = " + self.sub(e[3], 1), 1
        if t == "opindex":
            return self.sub(e[2], 10) + "[" + self.ex(e[3])[0] + "] " + e[1] + "= " + self.sub(e[4], 1), 1
        if t in ("rawnum", "rawstr"):
            return e[1], 11   # literal spelled exactly as given, value in e[2]
        if t == "opset":
            return self.sub(e[2], 10) + "." + e[3] + " " + e[1] + "= " + self.sub(e[4], 1), 1
        if t == "invoke":
            return self.sub(e[1], 10) + "." + e[2] + "(" + ", ".join(self.sub(a, 1) for a in e[3]) + ")", 10
        if t == "at":
            return "@" + e[1], 11
        if t == "atset":
            return "@" + e[1] + " = " + self.sub(e[2], 1), 1
        if t == "chan":
            return "chan(" + (self.ex(e[1])[0] if e[1] is not None else "") + ")", 10
        if t == "send":
            return self.sub(e[1], 10) + " <- " + self.sub(e[2], 2), 1
        if t == "recv":
            return "<- " + self.sub(e[1], 10), 9
        if t == "super":
            if e[2] is None:
                return "super." + e[1], 10
            return "super." + e[1] + "(" + ", ".join(self.sub(a, 1) for a in e[2]) + ")", 10
        raise Unsupported("print expression " + t)

    def sub(self, e, need):
        s, p = self.ex(e)
        if self.layout == "full" and p < 11:
            return "(" + s + ")"
        if p < need:
            return "(" + s + ")"
        if self.layout == "redundant" and e[0] not in ("paren",):
            return "(" + s + ")"
        return s

    def top(self, e):
        s = self.ex(e)[0]
        if self.layout == "lines":
            return tokens_per_line(s)
        return s

    def inline_block(self, stmts):
        p = Printer(self.layout if self.layout not in ("lines", "comments") else "min")
        p.block(stmts, 0, inline=True)
        import re as _re
        return " ".join(x.strip() for x in _re.sub("[\x01\x03]\\d+[\x02\x04]", "", "".join(p.out)).split("\n") if x.strip())

    # statements
    def emit(self, text, node=None):
        if node is not None:
            self.marks.append(id(node))
            k = len(self.marks) - 1
            text = "\x01%d\x02" % k + text + "\x03%d\x04" % k
        self.out.append(text + "\n")

    def block(self, stmts, ind, inline=False):
        for s in stmts:
            self.stmt(s, ind)

    def stmt(self, s, ind):
        pad = "  " * ind
        t = s[0]
        if self.layout == "comments":
            self.emit(pad + "// c")
        if getattr(self, "skip_noise_once", False):
            self.skip_noise_once = False
        elif self.layout == "noisy":
            # tokens and expressions that contain line breaks, in front of every statement: later line numbers must still be true
            self.noise = getattr(self, "noise", 0) + 1
            k = self.noise
            if t != "import" and not getattr(self, "no_noise_stmts", False):
                self.emit(pad + "let nz%da = 'raw\nline\nbreaks';" % k)
                self.emit(pad + "let nz%db = [1,\n" % k + pad + "  2,\n\n" + pad + "  3];")
                self.emit(pad + "let nz%dc = 'x${\n" % k + pad + "  nz%db.len()\n" % k + pad + "}y' +\n" + pad + "  'z';")
                # a declaration without an initialiser (nothing of it may stick to what follows, e.g. as the name of later anonymous functions)
                self.emit(pad + "let nz%dd;" % k)
            self.emit("")
            self.emit(pad + "// noise")
        typed = self.layout == "typed"
        if t == "let":
            ann = ""
            if typed:
                # annotations are erased at run time: any annotation is semantically neutral
                ann = [": any", ": number | string", ": any[]", ": T"][len(s[1]) % 3]
            self.emit(pad + "let " + s[1] + ann + (" = " + self.top(s[2]) if s[2] is not None else "") + ";", s)
        elif t == "expr":
            self.emit(pad + self.top(s[1]) + ";", s)
        elif t == "implicit":
            self.emit(pad + self.top(s[1]), s)
        elif t == "print":
            self.emit(pad + "print(" + ", ".join(self.sub(e, 1) for e in s[1]) + ");", s)
        elif t == "if":
            self.emit(pad + "if " + self.top(s[1]) + " {", s)
            self.block(s[2], ind + 1)
            els = s[3]
            while els is not None and len(els) == 1 and els[0][0] == "if" and els[0][-1] == "elseif":
                inner = els[0]
                self.emit(pad + "} else if " + self.top(inner[1]) + " {", inner)
                self.block(inner[2], ind + 1)
                els = inner[3]
            if els is not None:
                self.emit(pad + "} else {")
                self.block(els, ind + 1)
            self.emit(pad + "}")
        elif t == "while":
            self.emit(pad + "while " + self.top(s[1]) + " {", s)
            self.block(s[2], ind + 1)
            self.emit(pad + "}")
        elif t == "for":
            self.emit(pad + "for " + s[1] + " in " + self.top(s[2]) + " {", s)
            self.block(s[3], ind + 1)
            self.emit(pad + "}")
        elif t in ("break", "continue"):
            self.emit(pad + t + ";", s)
        elif t == "return":
            self.emit(pad + "return" + (" " + self.top(s[1]) if s[1] is not None else "") + ";", s)
        elif t == "fn":
            if typed:
                self.emit(pad + "fn " + s[1] + "<T>(" + ", ".join(p + (": T" if k % 2 else ": any") for k, p in enumerate(s[2])) + ") -> any {", s)
            else:
                self.emit(pad + "fn " + s[1] + "(" + ", ".join(s[2]) + ") {", s)
            self.block(s[3], ind + 1)
            self.emit(pad + "}")
        elif t == "class":
            self.emit(pad + "class " + s[1] + (" : " + s[2] if s[2] else "") + " {", s)
            if typed:
                # member declarations for the fields the initialiser assigns anyway, in reverse order
                for kind, name, params, body in s[3]:
                    if name == "init" and kind != "static":
                        for f in reversed(declared_fields(body)):
                            self.emit(pad + "  " + f + ": any;")
            for kind, name, params, body in s[3]:
                if typed:
                    self.emit(pad + "  " + ("static " if kind == "static" else "") + name + "(" + ", ".join(p + ": any" for p in params) + ")" + (" -> any" if name != "init" else "") + " {")
                    self.block(body, ind + 2)
                    self.emit(pad + "  }")
                    continue
                self.emit(pad + "  " + ("static " if kind == "static" else "") + name + "(" + ", ".join(params) + ") {")
                self.block(body, ind + 2)
                self.emit(pad + "  }")
            self.emit(pad + "}")
        elif t == "try":
            self.emit(pad + "try {", s)
            self.block(s[1], ind + 1)
            self.emit(pad + "} catch " + s[2] + (": " + s[3] if s[3] else "") + " {")
            self.block(s[4], ind + 1)
            self.emit(pad + "}")
        elif t == "trym":
            self.emit(pad + "try {", s)
            self.block(s[1], ind + 1)
            for var, cname, handler in s[2]:
                self.emit(pad + "} catch " + var + (": " + cname if cname else "") + " {")
                self.block(handler, ind + 1)
            self.emit(pad + "}")
        elif t == "raise":
            self.emit(pad + "raise " + self.top(s[1]) + ";", s)
        elif t == "export":
            n = len(self.out)
            self.skip_noise_once = True
            self.stmt(s[1], ind)
            self.out[n] = pad + "export " + self.out[n].lstrip()
            self.marks.append(id(s))
            self.out[n] = "\x01%d\x02" % (len(self.marks) - 1) + self.out[n]
        elif t == "import":
            self.emit(pad + s[1] + ";", s)
        elif t == "raw":
            self.emit(pad + s[1], s)
        else:
            raise Unsupported("print statement " + t)

    def program(self, stmts):
        self.block(stmts, 0)
        raw = "".join(self.out)
        # resolve the statement markers into line numbers and strip them
        out = []
        line = 1
        i = 0
        n = len(raw)
        while i < n:
            ch = raw[i]
            if ch == "\x01":
                j = raw.index("\x02", i)
                self.lines.setdefault(self.marks[int(raw[i + 1:j])], line)
                i = j + 1
                continue
            if ch == "\x03":
                j = raw.index("\x04", i)
                self.ends.setdefault(self.marks[int(raw[i + 1:j])], line)
                i = j + 1
                continue
            if ch == "\n":
                line += 1
            out.append(ch)
            i += 1
        return "".join(out)


def tokens_per_line(s):
    """split an expression's text at spaces outside string literals: one token per line"""
    out, cur, q = [], "", None
    i = 0
    while i < len(s):
        ch = s[i]
        if q:
            cur += ch
            if ch == "\\":
                cur += s[i + 1]
                i += 1
            elif ch == q:
                q = None
        elif ch in "'\"":
            q = ch
            cur += ch
        elif ch == " ":
            if cur:
                out.append(cur)
            cur = ""
        else:
            cur += ch
        i += 1
    if cur:
        out.append(cur)
    return "\n".join(out)


def render(stmts, layout="min", multiline_lambdas=False):
    p = Printer(layout, multiline_lambdas)
    src = p.program(stmts)
    return src, p.lines


def render_spans(stmts, layout="min", multiline_lambdas=True):
    """-> (source, start line per statement id, {start line: end line} for statements spanning several lines)"""
    p = Printer(layout, multiline_lambdas)
    src = p.program(stmts)
    spans = {}
    for k, st in p.lines.items():
        en = p.ends.get(k, st)
        if en > spans.get(st, st):
            spans[st] = en
    return src, p.lines, spans
