"""Built-in methods of the reference semantics: finite sequences (List, Tuple),
finite maps (Map), sequences of Unicode characters (String), numbers and lazy
streams (iterators), following the conventions listed in DESIGN.md appendix A
(observed on the real binary; they are conventions, not properties)."""
import math
from .layref import (LList, LTuple, LMap, Stream, Native, Closure, Bound, LClass, Instance, Unsupported, values_equal, truthy, fmt_num)

NUM, STR, CALL, ANY, BOOL = "number", "string", "callable", "any", "bool"


STACK_NATIVES = {"each", "reduce", "all", "any", "into"}


def is_callable(v):
    return isinstance(v, (Closure, Native)) or (isinstance(v, Bound))


def kind_ok(k, v):
    if k == ANY:
        return True
    if k == NUM:
        return isinstance(v, float)
    if k == STR:
        return isinstance(v, str)
    if k == BOOL:
        return isinstance(v, bool)
    if k == CALL:
        return is_callable(v)
    return False


def sig(I, args, lo, hi, kinds):
    """signature check as the natives do it: arity first, then parameter kinds -> RuntimeError"""
    if len(args) < lo or (hi is not None and len(args) > hi):
        I.throw("RuntimeError")
    for i, a in enumerate(args):
        k = kinds[i] if i < len(kinds) else (kinds[-1] if kinds else ANY)
        if not kind_ok(k, a):
            I.throw("RuntimeError")


def integer(I, x, err="IndexError"):
    if x != x or math.isinf(x) or x != int(x):
        I.throw(err)
    return int(x)


def slice_bounds(I, args, n):
    sig(I, args, 0, 2, [NUM, NUM])
    a = integer(I, args[0]) if len(args) > 0 else 0
    b = integer(I, args[1]) if len(args) > 1 else n
    if a < 0:
        a = max(0, n + a)
    if b < 0:
        b = max(0, n + b)
    a = min(a, n)
    b = min(b, n)
    if a > b:
        return 0, 0
    return a, b


def call(I, f, args):
    return I.call_value(f, args)


# ---------------------------------------------------------------- streams

def stream_of(I, v):
    if isinstance(v, Stream):
        return v
    raise Unsupported("native given a non iterator")


def s_map(I, it, f):
    while it.next():
        yield call(I, f, [it.cur])


def s_filter(I, it, f):
    while it.next():
        v = it.cur
        if truthy(call(I, f, [v])):
            yield v


def s_take(I, it, n):
    k = 0
    while k < n and it.next():
        k += 1
        yield it.cur


def s_skip(I, it, n):
    k = 0
    while k < n:
        if not it.next():
            return
        k += 1
    while it.next():
        yield it.cur


def s_zip(I, its):
    while True:
        row = []
        for it in its:
            if not it.next():
                return
            row.append(it.cur)
        yield LTuple(row)


def s_chain(I, its):
    for it in its:
        while it.next():
            yield it.cur


def drain(it):
    out = []
    while it.next():
        out.append(it.cur)
    return out


def iter_method(I, it, name):
    def m(fn, lo, hi, kinds):
        def run(I2, recv, args):
            sig(I2, args, lo, hi, kinds)
            if name in STACK_NATIVES:
                # natives that run callbacks from a call frame of their own show up in tracebacks as `native:0 in <name>()`
                I2.frames.append([name, 0, "native"])
                try:
                    return fn(args)
                finally:
                    I2.frames.pop()
            return fn(args)
        return Native(name, run, None)
    if name == "next":
        return m(lambda a: it.next(), 0, 0, [])
    if name == "current":
        return m(lambda a: it.cur, 0, 0, [])
    if name == "iter":
        return m(lambda a: it, 0, 0, [])
    if name == "map":
        return m(lambda a: Stream(s_map(I, it, a[0])), 1, 1, [CALL])
    if name == "filter":
        return m(lambda a: Stream(s_filter(I, it, a[0])), 1, 1, [CALL])
    if name == "take":
        def take(a):
            n = a[0]
            if n != n or math.isinf(n) or n != int(n):
                I.throw("ValueError")
            return Stream(s_take(I, it, int(n)))
        return m(take, 1, 1, [NUM])
    if name == "skip":
        def skip(a):
            n = a[0]
            if n != n or math.isinf(n) or n != int(n) or n < 0:
                I.throw("ValueError")
            # convention (observed): skip is eager, it consumes its n elements when it is created
            k = 0
            while k < int(n) and it.next():
                k += 1
            return Stream(s_skip(I, it, 0))
        return m(skip, 1, 1, [NUM])
    if name == "zip":
        return m(lambda a: Stream(s_zip(I, [it] + [stream_of(I, x) for x in a])), 0, None, [ANY])
    if name == "chain":
        return m(lambda a: Stream(s_chain(I, [it] + [stream_of(I, x) for x in a])), 0, None, [ANY])
    if name == "reduce":
        def red(a):
            acc = a[0]
            while it.next():
                acc = call(I, a[1], [acc, it.cur])
            return acc
        return m(red, 2, 2, [ANY, CALL])
    if name == "each":
        def each(a):
            while it.next():
                call(I, a[0], [it.cur])
            return None
        return m(each, 1, 1, [CALL])
    if name == "all":
        def all_(a):
            while it.next():
                if not truthy(call(I, a[0], [it.cur])):
                    return False
            return True
        return m(all_, 1, 1, [CALL])
    if name == "any":
        def any_(a):
            while it.next():
                if truthy(call(I, a[0], [it.cur])):
                    return True
            return False
        return m(any_, 1, 1, [CALL])
    if name == "first":
        return m(lambda a: it.cur if it.next() else None, 0, 0, [])
    if name == "last":
        def last(a):
            v = None
            while it.next():
                v = it.cur
            return v
        return m(last, 0, 0, [])
    if name == "len":
        return m(lambda a: float(len(drain(it))), 0, 0, [])
    if name == "list":
        return m(lambda a: LList(drain(it)), 0, 0, [])
    if name == "into":
        return m(lambda a: call(I, a[0], [it]), 1, 1, [CALL])
    return None


# ---------------------------------------------------------------- per kind

def list_method(I, l, name):
    def m(fn, lo, hi, kinds):
        def run(I2, recv, args):
            sig(I2, args, lo, hi, kinds)
            return fn(args)
        return Native(name, run, None)
    if name == "len":
        return m(lambda a: float(len(l.items)), 0, 0, [])
    if name == "push":
        def push(a):
            l.items.extend(a)
            return None
        return m(push, 0, None, [ANY])
    if name == "pop":
        return m(lambda a: l.items.pop() if l.items else None, 0, 0, [])
    if name == "insert":
        def ins(a):
            i = a[0]
            if i < 0:
                I.throw("IndexError")
            k = integer(I, i)
            if k > len(l.items):
                I.throw("IndexError")
            l.items.insert(k, a[1])
            return None
        return m(ins, 2, 2, [NUM, ANY])
    if name == "remove":
        def rem(a):
            i = a[0]
            if i < 0:
                I.throw("IndexError")
            k = integer(I, i)
            if k >= len(l.items):
                I.throw("IndexError")
            return l.items.pop(k)
        return m(rem, 1, 1, [NUM])
    if name == "clear":
        def clr(a):
            del l.items[:]
            return None
        return m(clr, 0, 0, [])
    if name == "has":
        return m(lambda a: any(values_equal(x, a[0]) for x in l.items), 1, 1, [ANY])
    if name == "index":
        def idx(a):
            for k, x in enumerate(l.items):
                if values_equal(x, a[0]):
                    return float(k)
            return None
        return m(idx, 1, 1, [ANY])
    if name == "slice":
        def sl(a):
            lo, hi = slice_bounds(I, a, len(l.items))
            return LList(l.items[lo:hi])
        return Native(name, lambda I2, r, a: sl(a), None)
    if name == "rev":
        return m(lambda a: LList(list(reversed(l.items))), 0, 0, [])
    if name == "sort":
        def srt(a):
            import functools
            items = list(l.items)

            def cmp(x, y):
                r = call(I, a[0], [x, y])
                if not isinstance(r, float) or r != r:
                    raise Unsupported("comparator result is not a number")
                return -1 if r < 0 else (1 if r > 0 else 0)
            # the property promises a sorted permutation for a total order; stable merge sort
            return LList(sorted(items, key=functools.cmp_to_key(cmp)))
        return m(srt, 1, 1, [CALL])
    if name == "iter":
        return m(lambda a: I.make_iter(l), 0, 0, [])
    if name == "str":
        return m(lambda a: I.to_str(l), 0, 0, [])
    return None


def tuple_method(I, t, name):
    def m(fn, lo, hi, kinds):
        def run(I2, recv, args):
            sig(I2, args, lo, hi, kinds)
            return fn(args)
        return Native(name, run, None)
    if name == "len":
        return m(lambda a: float(len(t.items)), 0, 0, [])
    if name == "has":
        return m(lambda a: any(values_equal(x, a[0]) for x in t.items), 1, 1, [ANY])
    if name == "index":
        def idx(a):
            for k, x in enumerate(t.items):
                if values_equal(x, a[0]):
                    return float(k)
            return None
        return m(idx, 1, 1, [ANY])
    if name == "slice":
        def sl(a):
            lo, hi = slice_bounds(I, a, len(t.items))
            return LTuple(t.items[lo:hi])
        return Native(name, lambda I2, r, a: sl(a), None)
    if name == "iter":
        return m(lambda a: I.make_iter(t), 0, 0, [])
    if name == "str":
        return m(lambda a: I.to_str(t), 0, 0, [])
    return None


def map_method(I, mp, name):
    def m(fn, lo, hi, kinds):
        def run(I2, recv, args):
            sig(I2, args, lo, hi, kinds)
            return fn(args)
        return Native(name, run, None)
    if name == "len":
        return m(lambda a: float(len(mp.keys)), 0, 0, [])
    if name == "get":
        def get(a):
            k = mp.find(a[0])
            return mp.vals[k] if k >= 0 else None
        return m(get, 1, 1, [ANY])
    if name == "has":
        return m(lambda a: mp.find(a[0]) >= 0, 1, 1, [ANY])
    if name in ("set", "insert"):
        def st(a):
            k = mp.find(a[0])
            old = mp.vals[k] if k >= 0 else None
            I.map_set(mp, a[0], a[1])
            return old
        return m(st, 2, 2, [ANY, ANY])
    if name == "remove":
        def rem(a):
            k = mp.find(a[0])
            if k < 0:
                I.throw("KeyError")
            mp.keys.pop(k)
            return mp.vals.pop(k)
        return m(rem, 1, 1, [ANY])
    if name == "iter":
        return m(lambda a: I.make_iter(mp), 0, 0, [])
    if name == "str":
        return m(lambda a: I.to_str(mp), 0, 0, [])
    return None


def str_method(I, s, name):
    def m(fn, lo, hi, kinds):
        def run(I2, recv, args):
            sig(I2, args, lo, hi, kinds)
            return fn(args)
        return Native(name, run, None)
    if name == "len":
        return m(lambda a: float(len(s)), 0, 0, [])
    if name == "has":
        return m(lambda a: a[0] in s, 1, 1, [STR])
    if name == "slice":
        def sl(a):
            lo, hi = slice_bounds(I, a, len(s))
            return s[lo:hi]
        return Native(name, lambda I2, r, a: sl(a), None)
    if name == "split":
        def sp(a):
            sep = a[0]
            if sep == "":
                parts = [""] + list(s) + [""]
            else:
                parts = s.split(sep)
            return Stream(iter(parts))
        return m(sp, 1, 1, [STR])
    if name == "str":
        return m(lambda a: s, 0, 0, [])
    if name == "trim":
        return m(lambda a: s.strip(), 0, 0, [])
    if name == "trimStart":
        return m(lambda a: s.lstrip(), 0, 0, [])
    if name == "trimEnd":
        return m(lambda a: s.rstrip(), 0, 0, [])
    if name == "upCase":
        return m(lambda a: s.upper(), 0, 0, [])
    if name == "downCase":
        return m(lambda a: s.lower(), 0, 0, [])
    if name == "iter":
        return m(lambda a: I.make_iter(s), 0, 0, [])
    return None


def rust_round(x):
    if x != x or math.isinf(x):
        return x
    r = math.floor(abs(x) + 0.5)
    return math.copysign(r, x)


def num_method(I, n, name):
    def m(fn, lo, hi, kinds):
        def run(I2, recv, args):
            sig(I2, args, lo, hi, kinds)
            return fn(args)
        return Native(name, run, None)
    if name == "times":
        def times(a):
            if n != n or math.isinf(n) or n < 0 or n != int(n):
                I.throw("ValueError")
            return Stream(iter([float(k) for k in range(int(n))])) if n < 100000 else Stream((float(k) for k in range(int(n))))
        return m(times, 0, 0, [])
    if name == "until":
        def until(a):
            stride = a[1] if len(a) > 1 else 1.0
            if not (stride > 0):
                I.throw("ValueError")

            def gen():
                cur = n
                while cur < a[0]:
                    yield cur
                    cur = cur + stride
            return Stream(gen())
        return m(until, 1, 2, [NUM, NUM])
    if name == "floor":
        return m(lambda a: float(math.floor(n)) if not (n != n or math.isinf(n)) else n, 0, 0, [])
    if name == "ceil":
        return m(lambda a: (math.copysign(float(math.ceil(n)), n) if math.ceil(n) == 0 else float(math.ceil(n))) if not (n != n or math.isinf(n)) else n, 0, 0, [])
    if name == "round":
        return m(lambda a: rust_round(n), 0, 0, [])
    if name == "str":
        return m(lambda a: fmt_num(n), 0, 0, [])
    return None


def method(I, o, name):
    if isinstance(o, Stream):
        r = iter_method(I, o, name)
    elif isinstance(o, LList):
        r = list_method(I, o, name)
    elif isinstance(o, LTuple):
        r = tuple_method(I, o, name)
    elif isinstance(o, LMap):
        r = map_method(I, o, name)
    elif isinstance(o, bool):
        r = Native(name, lambda I2, rr, a: "true" if o else "false", None) if name == "str" else None
    elif isinstance(o, str):
        r = str_method(I, o, name)
    elif isinstance(o, float):
        r = num_method(I, o, name)
    elif o is None:
        r = Native(name, lambda I2, rr, a: "nil", None) if name == "str" else None
    else:
        r = None
    return r


def install_globals(I):
    """List.collect / Tuple.collect / Number.parse / Number.cmp as static natives on placeholder classes"""
    def static_class(name, table):
        c = LClass(name, I.classes["Object"])
        for k, (fn, lo, hi, kinds) in table.items():
            def mk(fn=fn, lo=lo, hi=hi, kinds=kinds, k=k):
                def run(I2, recv, args):
                    sig(I2, args, lo, hi, kinds)
                    if k in ("parse",):  # declared with a frame of its own: listed in the traceback of the error it raises
                        I2.frames.append([k, 0, "native"])
                        try:
                            return fn(args)
                        finally:
                            I2.frames.pop()
                    return fn(args)
                return Native(k, run, None)
            c.statics[k] = mk()
        from .layref import Cell
        I.globals[name] = Cell(c)

    def parse(a):
        t = a[0]
        try:
            if t != t.strip() or t == "" or "_" in t or t.lower().startswith(("0x", "+0x", "-0x")):
                raise ValueError
            low = t.lower().lstrip("+-")
            if low in ("inf", "infinity", "nan"):
                return float(t)
            if not all(ch in "0123456789.eE+-" for ch in t):
                raise ValueError
            return float(t)
        except ValueError:
            I.throw("FormatError")

    def cmp(a):
        x, y = a
        # convention: the difference (its sign is what a comparator needs)
        if math.isinf(x) and math.isinf(y) and (x > 0) == (y > 0):
            return math.nan
        return x - y
    static_class("List", {"collect": (lambda a: LList(drain(stream_of(I, a[0]))), 1, 1, [ANY])})
    static_class("Tuple", {"collect": (lambda a: LTuple(drain(stream_of(I, a[0]))), 1, 1, [ANY])})
    static_class("Number", {"parse": (parse, 1, 1, [STR]), "cmp": (cmp, 2, 2, [NUM, NUM])})
