"""Process pool around `lvrun serve`: in-process Laythe runs with process isolation.

A Runner owns one lvrun child. Cases are written in small batches; a child that
dies (signal), is killed by its watchdog (timeout) or exits after reporting a
host panic is restarted and the remaining cases of the batch are resubmitted.
"""
import json, os, re, subprocess, signal, sys, time

ROOT = os.path.dirname(os.path.dirname(os.path.abspath(__file__)))
BUILD = os.environ.get("VERIF_BUILD", "checked")
BIN = {
    "checked": os.path.join(ROOT, "target", "release", "lvrun"),
    "plain": os.path.join(ROOT, "target", "plain", "lvrun"),
    "nan": os.path.join(ROOT, "target", "nan", "release", "lvrun"),
    "nanplain": os.path.join(ROOT, "target", "nan", "plain", "lvrun"),
}

ADDR = re.compile(r"0x[0-9a-f]+")


def norm(s):
    return ADDR.sub("0xX", s)


class Runner:
    def __init__(self, build="checked", horizon_ms=5000, no_aslr=True):
        self.build = build
        self.horizon_ms = horizon_ms
        # address space randomisation is off by default: outcomes of known memory-unsafe inputs then repeat from run to run
        # (VERIF_ASLR=1 turns it back on; used when recording the failing inputs of known findings, see DESIGN.md 0.7)
        self.no_aslr = no_aslr and os.environ.get("VERIF_ASLR") != "1"
        self.p = None
        self.restarts = 0

    def _start(self):
        cmd = [BIN[self.build], "serve", str(self.horizon_ms)]
        if self.no_aslr:
            cmd = ["setarch", "-R"] + cmd
        self.p = subprocess.Popen(cmd, stdin=subprocess.PIPE, stdout=subprocess.PIPE,
                                  stderr=subprocess.DEVNULL, bufsize=1 << 16)

    def close(self):
        if self.p is not None:
            try:
                self.p.stdin.close()
            except Exception:
                pass
            try:
                self.p.wait(timeout=2)
            except Exception:
                self.p.kill()
                self.p.wait()
            self.p = None

    def _reap(self):
        """child ended: return a description of how"""
        try:
            rc = self.p.wait(timeout=10)
        except Exception:
            self.p.kill()
            rc = self.p.wait()
        self.p = None
        self.restarts += 1
        return rc

    def run_batch(self, cases, chunk_cases=24, chunk_bytes=24000):
        """run cases (dicts with an 'id'); returns list of result dicts in order.
        Cases are written in chunks small enough for the pipe buffers (no deadlock)."""
        out = []
        cur, size = [], 0
        for c in cases:
            b = len(c.get("src", "")) + sum(len(v) for v in c.get("files", {}).values()) + 200
            if cur and (len(cur) >= chunk_cases or size + b > chunk_bytes):
                out.extend(self._run_chunk(cur))
                cur, size = [], 0
            cur.append(c)
            size += b
        if cur:
            out.extend(self._run_chunk(cur))
        return out

    def _run_chunk(self, cases):
        results = []
        i = 0
        n = len(cases)
        while i < n:
            if self.p is None:
                self._start()
            chunk = cases[i:]
            try:
                payload = "".join(json.dumps(c, separators=(",", ":")) + "\n" for c in chunk).encode()
                self.p.stdin.write(payload)
                self.p.stdin.flush()
            except (BrokenPipeError, OSError):
                pass
            got = 0
            died = False
            while got < len(chunk):
                line = self.p.stdout.readline()
                if not line:
                    died = True
                    break
                try:
                    r = json.loads(line)
                except Exception:
                    r = {"class": "garbled", "raw": line.decode("utf8", "replace"), "out": "", "err": ""}
                r["id"] = chunk[got].get("id")
                results.append(r)
                got += 1
                if r.get("class") in ("panic", "timeout", "step_limit"):
                    # the child exits by itself after these
                    died = True
                    break
            i += got
            if died:
                rc = self._reap()
                last = results[-1] if results else None
                if got == 0 or (last is not None and last.get("class") not in ("panic", "timeout", "step_limit")):
                    # died without reporting: the case in flight is cases[i]
                    if i < n:
                        sig = -rc if rc is not None and rc < 0 else rc
                        results.append({"id": cases[i].get("id"), "class": "signal", "code": sig, "out": "", "err": "",
                                        "signal": signal.Signals(sig).name if isinstance(sig, int) and 0 < sig < 65 and rc < 0 else str(rc)})
                        i += 1
        return results

    def run_one(self, case):
        return self.run_batch([case])[0]


def obs_key(r):
    """what is compared between runs: class, exit code, normalised stdout/stderr"""
    return (r.get("class"), r.get("code"), norm(r.get("out", "")), norm(r.get("err", "")))


def fresh_replay(case, build="checked", horizon_ms=10000, times=2):
    """replay one case alone in a fresh process `times` times; returns list of results"""
    out = []
    for _ in range(times):
        r = Runner(build=build, horizon_ms=horizon_ms, no_aslr=True)
        try:
            out.append(r.run_one(dict(case)))
        finally:
            r.close()
    return out
