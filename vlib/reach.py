"""Reachability space for C05 (DESIGN.md C05 (iii)): programs in which a fresh heap
object is reachable ONLY through one particular kind of holder while allocations (and,
under the schedule exploration, collections) happen, and is then read back and printed.
  holders(): one program per holder kind;
  channel_histories(): every non-blocking send/receive history up to a length bound on
  buffered channels of capacity 1..3 (ring buffer at every offset, wrapped or not) with
  fresh heap payloads, junk allocated between the operations, drained at the end."""
import itertools

JUNK = "let junk%d = ['j', %d, 'k' + %d.str()];"


def fresh(k):
    return "['p%d', %d, 'q' + %d.str()]" % (k, k, k)


def holders():
    P = []

    def add(name, setup, read):
        # setup stores fresh(1) somewhere and drops every other reference; churn allocates; read prints it
        churn = " ".join(JUNK % (i, i, i) for i in range(4)) + " let big = []; for i in 12.times() { big.push([i, 's' + i.str()]); }"
        P.append(("reach:" + name, "%s\n%s\n%s\nprint('end', big.len());\n" % (setup, churn, read)))
    v = fresh(1)
    add("local_in_fn", "fn f() { let x = %s; let t = [0, 1, 2].iter().map(|i| [i]).list(); return x; }" % v, "print(f());")
    add("module_var", "let x = %s;" % v, "print(x);")
    add("closure_capture", "fn mk() { let x = %s; return || x; } let c = mk();" % v, "print(c());")
    add("closure_capture_written", "fn mk() { let x = nil; let s = |n| { x = n; }; let g = || x; return [s, g]; } let p = mk(); p[0](%s);" % v, "print(p[1]());")
    add("nested_capture", "fn a() { let x = %s; fn b() { fn c() { return x; } return c; } return b; } let c = a()();" % v, "print(c());")
    add("instance_field", "class H { init(v) { self.v = v; self.w = nil; } } let h = H(%s);" % v, "print(h.v);")
    add("instance_field_late", "class H { init() { self.v = nil; } } let h = H(); h.v = %s;" % v, "print(h.v);")
    add("list_elem", "let l = [0, %s, 2];" % v, "print(l[1]);")
    add("list_pushed", "let l = []; l.push(1); l.push(%s); l.push(3); l.push(4); l.push(5);" % v, "print(l[1], l.len());")
    add("nested_list", "let l = [[[%s]]];" % v, "print(l[0][0][0]);")
    add("map_value", "let m = {'k': %s};" % v, "print(m['k']);")
    add("map_key", "let m = {}; m[%s] = 'v';" % v, "for kv in m { print(kv[0], kv[1]); }")
    add("map_many", "let m = {}; for i in 20.times() { m['k' + i.str()] = ['v', i]; }", "print(m['k0'], m['k7'], m['k19'], m.len());")
    add("tuple_elem", "let t = (0, %s);" % v, "print(t[1]);")
    add("bound_method", "class H { init(v) { self.v = v; } get() { return self.v; } } let b = H(%s).get;" % v, "print(b());")
    add("native_bound_method", "let b = %s.len; let c = ('s' + 'tr').upCase;" % v, "print(b(), c());")
    add("error_message", "let e = Error('m' + 'sg', Error('in' + 'ner'));", "print(e.message, e.inner.message);")
    add("error_in_flight", "fn thrower() { raise Error('fly' + 'ing', Error('deep' + 'er')); } fn mid() { let pad = [1, 2]; thrower(); }",
        "try { mid(); } catch e { let t = [9].iter().map(|i| [i, i]).list(); print(e.message, e.inner.message, e.backTrace.len()); }")
    add("error_field", "class E : Error { init(m, extra) { super.init(m); self.extra = extra; } } fn t() { raise E('m', %s); }" % v, "try { t(); } catch e: E { print(e.extra, e.message); }")
    add("error_through_native", "fn cb(x) { raise Error('cb' + x.str(), Error('c' + 'ause')); }", "try { [1, 2].iter().each(cb); } catch e { print(e.message, e.inner.message); }")
    add("iterator_source", "let it = %s.iter();" % v, "print(it.list());")
    add("iterator_pipeline", "let it = [1, 2, 3].iter().map(|x| [x, 'm' + x.str()]).filter(|p| p[0] != 2);", "print(it.list());")
    add("iterator_partial", "let it = [[1], [2], [3]].iter().map(|x| x); it.next();", "print(it.current(), it.list());")
    add("zip_chain", "let it = ['a' + 'b', 'c' + 'd'].iter().zip([[1], [2]].iter()).chain([('x', [9])].iter());", "print(it.list());")
    add("reduce_acc", "", "print([1, 2, 3, 4].iter().reduce([], |a, x| { a.push(['r', x]); let j = [x, x]; return a; }));")
    # values that only the native's own (Rust-side) state holds between two callbacks: a fresh accumulator, the current element of a lazy source
    add("reduce_fresh_acc", "", "print([1, 2, 3, 4].iter().map(|x| [x, 'm' + x.str()]).reduce(nil, |a, x| [a, x]));")
    add("reduce_fresh_acc_str", "", "print([1, 2, 3].iter().map(|x| ['e' + x.str()]).filter(|x| x[0] != 'e9').reduce('s', |a, x| a + x[0] + 'q'));")
    add("reduce_in_reduce", "", "print([[1, 2], [3, 4]].iter().map(|p| p.iter().map(|v| [v]).reduce([], |a, x| [a, x])).reduce(nil, |a, x| [a, x]));")
    add("each_over_fresh", "let out = [];", "[1, 2, 3].iter().map(|x| ['f' + x.str()]).filter(|p| p[0] != 'f2').each(|p| { let j = [p, p]; out.push(p); }); print(out);")
    add("zip_fresh_both", "", "print([1, 2].iter().map(|x| ['l' + x.str()]).zip([3, 4].iter().map(|x| ['r' + x.str()])).map(|t| [t[0], t[1]]).list());")
    add("into_fresh", "", "print([1, 2, 3].iter().map(|x| ['i' + x.str()]).into(List.collect), [1, 2].iter().map(|x| ['t' + x.str()]).into(Tuple.collect));")
    add("all_any_fresh", "", "print([1, 2, 3].iter().map(|x| ['a' + x.str()]).all(|p| { let j = [p]; return p[0].len() == 2; }), [1, 2].iter().map(|x| [x]).any(|p| { let j = [p, p]; return p[0] == 2; }));")
    add("first_last_fresh", "", "print([1, 2, 3].iter().map(|x| ['z' + x.str()]).last(), [1, 2].iter().map(|x| ['y' + x.str()]).skip(1).first(), [1, 2, 3].iter().map(|x| [x]).take(2).list());")
    add("sort_fresh_result", "", "print([3, 1, 2].iter().map(|x| [x, 's' + x.str()]).list().sort(|a, b| { let t = [a, b, 'tmp' + a[1]]; return a[0] - b[0]; }));")
    # values that die and whose equal is built again later: nothing of the dead one (an intern-table entry, a cache entry, a forwarding pointer) may be found again
    add("string_dropped_and_rebuilt", "", "let s = 'dr' + 'op' + 1.str(); let n = s.len(); s = nil; let pad = [1, 2]; let t = 'dr' + 'op' + 1.str(); print(n, t, t.len(), t == 'drop' + '1', {t: 1}['dro' + 'p1']);")
    # ... followed by other strings of the same size (an allocator that hands a released block out again gives them the dead one's block)
    add("string_rebuilt_then_same_size_strings", "", "let s = 'ab' + 'cd' + 1.str(); s = nil; let pad = [1, 2]; let t = 'ab' + 'cd' + 1.str(); let u = 'zz' + 'zz' + 2.str(); let w = 'yy' + 'yy' + 3.str(); let x = 'xx' + 'xx' + 4.str(); print(t, u, w, x, t == 'abcd' + '1', t.len());")
    add("strings_rebuilt_alternating", "", "let out = []; for i in 4.times() { let s = 'k' + (i - (i / 2).floor() * 2).str() + 'k'; out.push(s.len()); s = nil; let o = 'o' + i.str() + 'o'; out.push(o); } print(out, 'k0k' == 'k' + '0k', 'k' + '1' + 'k');")
    add("string_rebuilt_in_loop", "", "let seen = []; for i in 3.times() { let s = 'lo' + 'op'; seen.push(s.len()); let junk = [i, [i]]; } let t = 'lo' + 'op'; print(seen, t, t == 'loop');")
    add("string_rebuilt_by_natives", "", "let a = ['x', 'y'].iter().map(|c| c + 'z').list(); a.clear(); let pad = [[1], [2]]; let b = ['x', 'y'].iter().map(|c| c + 'z').list(); print(b, b[0] == 'x' + 'z', 'xz,yz'.split(',').list() == b);")
    add("string_rebuilt_by_interpolation", "", "let n = 7; let s = 'v${n}w'; s = nil; let pad = [n]; let t = 'v${n}w'; print(t, t.len(), t == 'v7' + 'w', [t].has('v' + '7w'));")
    add("long_string_dropped_and_rebuilt", "", "let mk = || { let s = ''; for i in 40.times() { s = s + 'q' + i.str(); } return s; }; let a = mk(); let n = a.len(); a = nil; let pad = [1]; let b = mk(); print(n, b.len(), b == mk(), b.slice(0, 6));")
    add("chain_fresh", "", "print([1].iter().map(|x| ['c' + x.str()]).chain([2].iter().map(|x| ['d' + x.str()])).list());")
    add("sort_temp", "", "print([[3], [1], [2]].sort(|a, b| { let t = [a, b]; return a[0] - b[0]; }));")
    add("interpolation_parts", "class S { init(v) { self.v = v; } str() { let t = [1, 2]; return 's' + self.v.str(); } }", "print('a${S(1)}b${S(2)}c${[S(3)]}d');")
    add("string_build", "", "let s = ''; for i in 10.times() { s = s + 'x' + i.str(); } print(s, s.split('x').list().len());")
    add("class_static_and_methods", "fn mk() { class K { init() { self.v = %s; } get() { return self.v; } static s() { return ['st', 'a' + 'tic']; } } return K; } let K = mk();" % v, "print(K().get(), K.s());")
    add("class_dropped_instance_kept", "fn mk() { class K { init() { self.v = %s; } who() { return 'K' + 'who'; } } return K(); } let k = mk();" % v, "print(k.v, k.who(), k.cls().name());")
    add("super_chain", "class A { init() { self.a = %s; } m() { return ['A', self.a]; } } class B : A { m() { return ['B', super.m()]; } }" % v, "print(B().m());")
    add("launch_argument", "let c = chan(1); fn w(c, v) { c <- v; } launch w(c, %s);" % v, "print(<- c);")
    add("parked_fiber_local", "let c = chan(); let d = chan(1); fn w(c, d) { let mine = %s; let go = <- c; d <- [go, mine]; } launch w(c, d); let pre = <- chan(1) == nil ? 0 : 1;" % v if False else
        "let c = chan(); let d = chan(1); fn w(c, d) { let mine = %s; let go = <- c; d <- [go, mine]; } launch w(c, d);" % v, "c <- 'go'; print(<- d);")
    # closures that are launched and referred to by nothing else: the call frame of the new fiber is the only holder of their captures
    add("launched_lambda_capture_queued", "let d = chan(1); fn go(d) { let mine = %s; launch (|| { d <- mine; })(); } go(d);" % v, "print(<- d);")
    add("launched_lambda_capture_parked", "let c = chan(); let d = chan(1); fn go(c, d) { let mine = %s; launch (|| { let g = <- c; d <- [g, mine]; })(); } go(c, d); let warm = chan(1); warm <- 1; <- warm;" % v, "c <- 'go'; print(<- d);")
    add("launched_lambda_capture_written", "let c = chan(); let d = chan(1); fn go(c, d) { let mine = nil; launch (|| { mine = %s; let g = <- c; d <- [g, mine]; })(); } go(c, d); <- chan(1) == nil;" % v if False else
        "let c = chan(); let d = chan(1); fn go(c, d) { let mine = nil; launch (|| { mine = %s; let g = <- c; d <- [g, mine]; })(); } go(c, d);" % v, "c <- 'go'; print(<- d);")
    add("launched_nested_capture", "let d = chan(1); fn outer(d) { let mine = %s; fn mid() { launch (|| { d <- [mine, 'n']; })(); } mid(); } outer(d);" % v, "print(<- d);")
    add("launched_method_closure", "let d = chan(1); class K { init(v) { self.v = v; } run(d) { launch (|| { d <- [self.v, @v]; })(); } } fn go(d) { K(%s).run(d); } go(d);" % v, "print(<- d);")
    add("launched_bound_method", "let d = chan(1); class H { init(v) { self.v = v; } send(d) { d <- self.v; } } fn go(d) { launch H(%s).send(d); } go(d);" % v, "print(<- d);")
    add("launched_chain", "let d = chan(1); fn go(d) { let mine = %s; launch (|| { launch (|| { d <- [mine]; })(); })(); } go(d); let e = chan(1); e <- 1; <- e;" % v, "print(<- d);")
    add("sync_offer", "let c = chan(); fn w(c) { c <- %s; } launch w(c);" % v, "print(<- c);")
    add("closed_channel_buffer", "let c = chan(2); c <- %s; c <- ['second']; c.close();" % v, "print(<- c, <- c, <- c);")
    add("module_level_fn_default", "fn f(a) { let inner = |b| [a, b]; return inner; } let g = f(%s);" % v, "print(g(['arg']));")
    add("native_args_temp", "", "print([['a' + 'b'], ['c' + 'd']].iter().map(|x| x[0].upCase() + 'z').list(), 'x,y'.split(',').map(|s| s + s).list());")
    add("regexp", "import std.regexp:{RegExp}; let r = RegExp('(a+)(b+)');", "print(r.captures('xaabb'), r.match('aab'), r.test('ab'));")
    add("deep_recursion_frames", "fn rec(n, acc) { if n == 0 { return acc; } let here = ['f', n]; return rec(n - 1, [here, acc]); }", "print(rec(6, nil));")
    add("for_item_capture", "let fs = []; for x in [['a'], ['b'], ['c']] { let y = [x, 'y']; fs.push(|| [x, y]); }", "print(fs[0](), fs[2]());")
    add("try_locals_after_catch", "fn f(a) { let l = %s; try { [][1]; } catch e { let t = [e.message]; } return [a, l]; }" % v, "print(f(['arg']));")
    return [(n, {"/v/main.lay": s}, "/v/main.lay") for n, s in P]


def channel_histories(max_len):
    out = []
    for cap in (1, 2, 3):
        for n in range(1, max_len + 1):
            for seq in itertools.product("SR", repeat=n):
                ln = 0
                ok = True
                for op in seq:
                    ln += 1 if op == "S" else -1
                    if ln < 0 or ln > cap:
                        ok = False
                        break
                if not ok or "S" not in seq:
                    continue
                lines = ["let c = chan(%d);" % cap]
                k = 0
                for i, op in enumerate(seq):
                    if op == "S":
                        k += 1
                        lines.append("c <- %s; %s" % (fresh(k), JUNK % (i, i, i)))
                    else:
                        lines.append("print('r', <- c); %s" % (JUNK % (i, i, i)))
                lines.append("let rest = []; while c.len() > 0 { rest.push(<- c); let t = [rest.len()]; } print('rest', rest);")
                out.append(("chanhist:cap%d:%s" % (cap, "".join(seq)), {"/v/main.lay": "\n".join(lines) + "\n"}, "/v/main.lay"))
    return out
