"""Generated program spaces shared between checks.

ctl_programs(depth, ...) : control-flow skeleton space (C06, C04 feed): a chain of
nested constructs with locals, a stack-perturbing prefix and a terminal action,
inside a function with p parameters.
small_programs(tier)     : smallest-bound slices fed to the differential checks.
"""
import itertools

CONSTRUCTS = ["if", "ifelse_then", "ifelse_else", "while", "for", "try", "catch", "lambda_call", "catch2", "catch3"]
TERMINALS = ["plain", "break", "continue", "return", "raise", "raise_native", "send_recv", "ternary"]
PREFIXES = ["none", "ternary", "andor", "send", "if_break_loop", "call_args"]


def nest(chain, terminal, locals_per_level, in_loop=False, level=0, uid=[0]):
    """returns (text, in_loop_at_terminal)"""
    ind = "  " * (level + 1)
    decl = "".join("%slet v%d_%d = %d;\n" % (ind, level, k, level * 10 + k) for k in range(locals_per_level))
    use = "".join("%sacc = acc + v%d_%d;\n" % (ind, level, k) for k in range(locals_per_level))
    if not chain:
        t = terminal
        if t == "plain":
            body = ind + "acc = acc + 1;\n"
        elif t == "break":
            body = ind + ("break;\n" if in_loop else "acc = acc + 2;\n")
        elif t == "continue":
            body = ind + ("continue;\n" if in_loop else "acc = acc + 3;\n")
        elif t == "return":
            body = ind + "return acc + 100;\n"
        elif t == "raise":
            body = ind + "raise Error('t');\n"
        elif t == "raise_native":
            body = ind + "[][3];\n"
        elif t == "send_recv":
            body = ind + "ch <- acc; acc = acc + (<- ch);\n"
        elif t == "ternary":
            body = ind + "acc = acc > 5 ? acc + 1 : (acc < 0 && true || acc + 2);\n"
        return decl + body + use
    c, rest = chain[0], chain[1:]
    inner_loop = in_loop
    if c in ("while", "for"):
        inner_loop = True
    if c == "lambda_call":
        inner_loop = False
    inner = nest(rest, terminal, locals_per_level, inner_loop, level + 1)
    if c == "if":
        s = "%sif acc >= 0 {\n%s%s}\n" % (ind, inner, ind)
    elif c == "ifelse_then":
        s = "%sif acc >= 0 {\n%s%s} else {\n%s  acc = acc - 1;\n%s}\n" % (ind, inner, ind, ind, ind)
    elif c == "ifelse_else":
        s = "%sif acc < 0 {\n%s  acc = acc - 1;\n%s} else {\n%s%s}\n" % (ind, ind, ind, inner, ind)
    elif c == "while":
        s = "%slet i%d = 0;\n%swhile i%d < 2 {\n%s  i%d = i%d + 1;\n%s%s}\n" % (ind, level, ind, level, ind, level, level, inner, ind)
    elif c == "for":
        s = "%sfor x%d in 2.times() {\n%s%s}\n" % (ind, level, inner, ind)
    elif c == "try":
        s = "%stry {\n%s%s} catch e%d: Error {\n%s  acc = acc + 1000;\n%s}\n" % (ind, inner, ind, level, ind, ind)
    elif c == "catch":
        s = "%stry {\n%s  raise Error('c%d');\n%s} catch e%d: Error {\n%s%s}\n" % (ind, ind, level, ind, level, inner, ind)
    elif c == "catch2":
        # the inner construct sits in the second of two clauses (the first one does not match)
        s = "%stry {\n%s  raise Error('c%d');\n%s} catch o%d: OtherErr {\n%s  acc = acc + 5000;\n%s} catch e%d: Error {\n%s%s}\n" % (ind, ind, level, ind, level, ind, ind, level, inner, ind)
    elif c == "catch3":
        s = ("%stry {\n%s  raise Error('c%d');\n%s} catch o%d: OtherErr {\n%s  acc = acc + 5000;\n%s} catch t%d: ThirdErr {\n%s  acc = acc + 7000;\n%s} catch e%d {\n%s%s}\n"
             % (ind, ind, level, ind, level, ind, ind, level, ind, ind, level, inner, ind))
    elif c == "block":
        s = "%s{\n%s%s}\n" % (ind, inner, ind)
    elif c == "lambda_call":
        s = "%sacc = (|a| {\n%s  let acc = a;\n%s%s  return acc;\n%s})(acc);\n" % (ind, ind, inner, ind, ind)
    return decl + s + use


def prefix_text(p):
    if p == "none":
        return ""
    if p == "ternary":
        return "  let pt = acc == 0 ? 1 : 2;\n  acc = acc + pt;\n"
    if p == "andor":
        return "  let pa = acc == 0 && 5 || 6;\n  acc = acc + pa;\n"
    if p == "send":
        return "  ch <- 7;\n  acc = acc + (<- ch);\n"
    if p == "if_break_loop":
        return "  let pl = 0;\n  while pl < 5 {\n    pl = pl + 1;\n    let q1 = pl; let q2 = q1; let q3 = q2;\n    if pl == 2 { break; }\n    acc = acc + q3;\n  }\n"
    if p == "call_args":
        return "  acc = acc + [1, 2, 3].len() + 'ab'.len() + (acc > 0 ? [acc].len() : 0);\n"


def ctl_program(chain, terminal, nlocals, prefix, params):
    ps = ", ".join("p%d" % k for k in range(params))
    args = ", ".join(str(k + 1) for k in range(params))
    body = nest(list(chain), terminal, nlocals)
    epi = "".join("  acc = acc + p%d;\n" % k for k in range(params))
    src = ("class OtherErr : Error {}\nclass ThirdErr : Error {}\nlet ch = chan(8);\nfn f(%s) {\n  let acc = 0;\n%s%s%s  let tail = acc * 2;\n  return tail;\n}\n"
           "try { print(f(%s)); } catch e: Error { print('uncaught', e.message); }\n"
           "try { print(f(%s)); } catch e: Error { print('uncaught', e.message); }\nprint('end');\n") % (ps, prefix_text(prefix), body, epi, args, args)
    return src


def ctl_specs(depth, terminals=TERMINALS, prefixes=PREFIXES, nlocals=(0, 1, 2), params=(0, 1, 3), constructs=CONSTRUCTS):
    for d in range(1, depth + 1):
        for chain in itertools.product(constructs, repeat=d):
            for t in terminals:
                for nl in nlocals:
                    for pf in prefixes:
                        for pa in params:
                            yield (chain, t, nl, pf, pa)


_SMALL_CACHE = {}


def small_programs(tier):
    """smallest-bound slices of the generated program spaces, fed to the differential checks (C05, C06, C12, C13, C14):
    every k-th control-flow skeleton plus evenly spaced specs of the reference-model checks' own spaces"""
    if tier in _SMALL_CACHE:
        return _SMALL_CACHE[tier]
    out = []
    k = 0
    for spec in ctl_specs(2, terminals=["break", "return", "raise", "send_recv"], prefixes=["none", "ternary", "send"], nlocals=(1,), params=(0, 2),
                          constructs=["ifelse_else", "while", "for", "try", "catch", "lambda_call"]):
        k += 1
        if tier != "thorough" and k % 3 != 0:
            continue
        src = ctl_program(*spec)
        out.append(("ctl:%s" % (spec,), {"/v/main.lay": src}, "/v/main.lay"))
    for spec in opcode_prefix_specs(False):
        if spec[2] in ("vm", "none") or tier == "thorough":
            out.append(("opc:%s" % (spec,), {"/v/main.lay": opcode_prefix_source(spec)}, "/v/main.lay"))
    import importlib
    per = 150 if tier == "thorough" else 40
    for name in ("c02", "c03", "c04", "c10", "c11", "c17", "c18"):
        try:
            mod = importlib.import_module("checks." + name)
            chk = getattr(mod, name.upper())()
            specs = list(chk.gen("quick"))
        except Exception:
            continue
        stride = max(1, len(specs) // per)
        for i in range(0, len(specs), stride):
            try:
                cases, _ = chk.build(specs[i])
            except Exception:
                continue
            c = cases[0]
            files = c.get("files") or {"/v/main.lay": c.get("src", "")}
            out.append(("%s:%d" % (name, i), files, c.get("entry", "/v/main.lay")))
    _SMALL_CACHE[tier] = out
    return out


# ---- one statement per stack-affecting construct ("a prefix per opcode"), followed by a try that fires --------------------
OPCODE_PREFIXES = [
    "let a%d = -l0;", "let a%d = l0 + 1 - 2 * 3 / 4;", "let a%d = !l0;", "let a%d = l0 && p0 || nil;", "let a%d = l0 < 1 == false; let b%d = l0 >= p0 != true; let c%d = l0 <= 2; let d%d = p0 > 1;",
    "let a%d = [l0, p0, 3];", "let a%d = (l0, p0);", "let a%d = {l0: p0, 'k': 1};", "let a%d = 'x${l0}y${p0}z';", "let a%d = [1, 2, 3, 4, 5, 6, 7, 8, 9, 10, 11, 12, 13, 14, 15, 16, 17, 18, 19, 20];",
    "let c%d = chan(); let d%d = chan(2); d%d <- l0; let a%d = <- d%d;", "fn w%d() { return 1; } launch w%d();", "fn w%d(x, y) { return x; } launch w%d(l0, p0);",
    "for i%d in 2.times() { let q%d = i%d; }", "for i%d in [1, 2, 3] { if i%d == 1 { continue; } if i%d == 2 { break; } }", "if l0 == 1 { let b1%d = 1; let b2%d = 2; let b3%d = 3; }",
    "if l0 == 5 { let x%d = 1; } else { let y%d = 2; let z%d = 3; }", "let w%d = 0; while w%d < 2 { w%d = w%d + 1; }", "while l0 < 0 { let never%d = 1; }",
    "self.k += 1;", "self.k = self.k + 1;", "@k = 5;", "let a%d = self.n; let b%d = @k;", "let o%d = Base(1); o%d.k += 2; let a%d = o%d.n; o%d.k = 3;",
    "let ll%d = [1]; ll%d[0] += 1; ll%d[0] = 2; let g%d = ll%d[0];", "let cap%d = 0; let f%d = || { cap%d = cap%d + 1; return cap%d; }; f%d();",
    "let a%d = super.m();", "let a%d = super.m1(5);", "let f%d = super.m; let a%d = f%d();", "let a%d = super.m2(l0, p0);", "let a%d = self.m1(1);", "let a%d = self.m2(1, 2);", "let a%d = Base.sm();",
    "class Inner%d { im() { return 1; } static is() { return 2; } } let a%d = Inner%d().im() + Inner%d.is();", "class Inner%d : Base { } let a%d = Inner%d(3).n;",
    "let a%d = l0 > 0 ? 1 : 2;", "let a%d = l0 > 0 ? (p0 > 0 ? 1 : 2) : 3;", "let a%d = print; let t%d = true; let n%d = nil; let fa%d = false;",
    "try { raise Error('p'); } catch e%d { let inner%d = 1; }", "try { let ok%d = 1; } catch e%d { let inner%d = 1; }", "let s%d = 'a' + 'b';",
    "let a%d = l0.str().len();", "let a%d = [1, 2, 3].iter().map(|x| x + l0).list();", "let a%d = [3, 1].sort(|x, y| x - y)[0];", "let m%d = {'a': 1}; m%d['b'] = 2; let a%d = m%d['a'];",
    "let t%d = (|x, y| x + y)(l0, p0);", "let a%d = [l0][0] == nil || [p0].len() > 0;",
]


def _inst(prefix, k):
    return prefix.replace("%d", str(k))


def opcode_prefix_program(prefixes, in_try, raise_kind):
    """prefixes: list of prefix texts (already instantiated). in_try: the prefixes are placed inside the try body before the raise. raise_kind: none | vm | raise | deep"""
    pre = " ".join(prefixes)
    raise_stmt = {"none": "let quiet = 1;", "vm": "[][1];", "raise": "raise Error('r');", "deep": "self.deep(2);"}[raise_kind]
    body_try = (pre + " " if in_try else "") + raise_stmt
    src = ("class Base { init(n) { self.n = n; self.k = 0; } m() { return 'Bm'; } m1(x) { return x; } m2(x, y) { return y; } static sm() { return 1; } "
           "deep(d) { if d == 0 { raise Error('deep'); } return self.deep(d - 1); } }\n"
           "class Sub : Base {\n  init(n) { super.init(n); self.extra = 1; }\n  m() { return 'Sm'; }\n  run(p0) {\n    let l0 = 1;\n    %s\n    let r = 'none';\n"
           "    try { %s r = r + '+done'; } catch e: Error { r = r + '+caught:' + e.cls().name() + (e.cls().name() == 'Error' ? ':' + e.message : ''); }\n    let post = [l0, p0, r, self.n, self.k];\n    return post;\n  }\n}\n"
           "print(Sub(1).run(2));\nprint(Sub(3).run(4));\n") % ("" if in_try else pre, body_try)
    return src


def opcode_prefix_specs(pairs):
    n = len(OPCODE_PREFIXES)
    for i in range(n):
        for in_try in (False, True):
            for rk in ("none", "vm", "raise", "deep"):
                yield ((i,), in_try, rk)
    if pairs:
        for i in range(n):
            for j in range(n):
                yield ((i, j), False, "vm")
                yield ((i, j), True, "deep")


def opcode_prefix_source(spec):
    idx, in_try, rk = spec
    return opcode_prefix_program([_inst(OPCODE_PREFIXES[i], k) for k, i in enumerate(idx)], in_try, rk)
