#!/usr/bin/env python3-vt
import json, jsonschema, glob, sys
m=json.load(open('/verif/MANIFEST.json')); s=json.load(open('/root/.vp/MANIFEST.schema.json'))
jsonschema.validate(m,s); print("manifest ok; checks:", [c["property_id"] for c in m["checks"]])
es=json.load(open('/root/.vp/EVIDENCE.schema.json'))
for p in sorted(glob.glob('/verif/evidence/*.json')):
    e=json.load(open(p))
    try:
        jsonschema.validate(e,es); print(p,"ok", e["tier"], e["coverage"].get("evaluations"), e["coverage"].get("distinct_nontrivial"))
    except Exception as ex:
        print(p,"INVALID",str(ex)[:300])
