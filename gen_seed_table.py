#!/usr/bin/env python3
"""prints the markdown table of kept seeded changes (DESIGN.md 0.6) from seeded/*/meta.json"""
import glob, json, os
rows = []
for p in sorted(glob.glob("/verif/seeded/*/meta.json")):
    m = json.load(open(p))
    rows.append("| %s | %s | %s | %s | %s |" % (m.get("seed_id", os.path.basename(os.path.dirname(p))), m.get("property", "?"),
                (m.get("summary", "") or "").replace("|", "/").replace("\n", " ")[:260], ", ".join(m.get("caught_by", [])), (m.get("detection_note", "") or "").replace("|", "/")[:330]))
print("| seed | attacked | change (abridged) | caught by | note |\n|------|----------|-------------------|-----------|------|")
print("\n".join(rows))
