//! Harness global allocator: records the size/alignment of every block in a
//! header *it owns* (never trusting the layout passed to `dealloc`), checks every
//! release against it, and can quarantine (optionally poison) freed blocks for
//! the duration of one case so that any use after free is detected
//! deterministically.

use std::alloc::{GlobalAlloc, Layout, System};
use std::sync::atomic::{AtomicBool, AtomicI64, AtomicU64, AtomicU8, AtomicUsize, Ordering};

pub struct VAlloc;

const HDR: usize = 32;
const LIVE_MAGIC: u64 = 0x4c49_5645_424c_4b21; // "LIVEBLK!"
const FREED_MAGIC: u64 = 0x4652_4545_4442_4c4b; // "FREEDBLK"
pub const POISON: u8 = 0xDE;

/// 0 = pass through, 1 = quarantine + poison, 2 = quarantine without poison,
/// 3 = eager reuse LIFO, 4 = eager reuse FIFO (exact size/align classes owned by the harness)
static MODE: AtomicU8 = AtomicU8::new(0);
static MISMATCH: AtomicU64 = AtomicU64::new(0);
static BAD_FREE: AtomicU64 = AtomicU64::new(0);
static FIRST_MISMATCH: [AtomicUsize; 4] = [
  AtomicUsize::new(0),
  AtomicUsize::new(0),
  AtomicUsize::new(0),
  AtomicUsize::new(0),
];
static LIVE_BYTES: AtomicI64 = AtomicI64::new(0);
static LIVE_BLOCKS: AtomicI64 = AtomicI64::new(0);
static RELEASES: AtomicU64 = AtomicU64::new(0);
static QUARANTINED: AtomicU64 = AtomicU64::new(0);
static OVERFLOW: AtomicBool = AtomicBool::new(false);

static LOCK: AtomicBool = AtomicBool::new(false);
static mut QHEAD: *mut u8 = std::ptr::null_mut();

// eager reuse free lists: one per (size/8) for sizes <= REUSE_MAX and align <= 16
const REUSE_MAX: usize = 4096;
const REUSE_CLASSES: usize = REUSE_MAX / 8 + 1;
static mut RHEAD: [*mut u8; REUSE_CLASSES] = [std::ptr::null_mut(); REUSE_CLASSES];
static mut RTAIL: [*mut u8; REUSE_CLASSES] = [std::ptr::null_mut(); REUSE_CLASSES];
static REUSED: AtomicU64 = AtomicU64::new(0);
static REUSE_HELD: AtomicU64 = AtomicU64::new(0);

const TABLE_BITS: usize = 18;
const TABLE_SIZE: usize = 1 << TABLE_BITS;
const TABLE_MAX_FILL: usize = TABLE_SIZE / 2;
static TABLE: [AtomicUsize; TABLE_SIZE] = [const { AtomicUsize::new(0) }; TABLE_SIZE];
static TABLE_FILL: AtomicUsize = AtomicUsize::new(0);

#[repr(C)]
struct Header {
  size: usize,
  align: usize,
  magic: u64,
  next: *mut u8,
}

#[inline]
fn pad_for(align: usize) -> usize {
  if align > HDR {
    align
  } else {
    HDR
  }
}

#[inline]
fn outer_layout(size: usize, align: usize) -> Layout {
  let a = if align > 16 { align } else { 16 };
  unsafe { Layout::from_size_align_unchecked(size + pad_for(align), a) }
}

fn lock() {
  while LOCK
    .compare_exchange_weak(false, true, Ordering::Acquire, Ordering::Relaxed)
    .is_err()
  {
    std::hint::spin_loop();
  }
}

fn unlock() {
  LOCK.store(false, Ordering::Release);
}

#[inline]
fn slot_of(addr: usize) -> usize {
  (addr >> 4).wrapping_mul(0x9E37_79B9_7F4A_7C15) >> (64 - TABLE_BITS)
}

fn table_insert(addr: usize) {
  let mut i = slot_of(addr);
  loop {
    let cur = TABLE[i].load(Ordering::Relaxed);
    if cur == 0 {
      TABLE[i].store(addr, Ordering::Relaxed);
      TABLE_FILL.fetch_add(1, Ordering::Relaxed);
      return;
    }
    if cur == addr {
      return;
    }
    i = (i + 1) & (TABLE_SIZE - 1);
  }
}

fn table_contains(addr: usize) -> bool {
  let mut i = slot_of(addr);
  loop {
    let cur = TABLE[i].load(Ordering::Relaxed);
    if cur == 0 {
      return false;
    }
    if cur == addr {
      return true;
    }
    i = (i + 1) & (TABLE_SIZE - 1);
  }
}

unsafe impl GlobalAlloc for VAlloc {
  unsafe fn alloc(&self, layout: Layout) -> *mut u8 {
    let mode = MODE.load(Ordering::Relaxed);
    if mode >= 3 && layout.size() <= REUSE_MAX && layout.align() <= 16 && REUSE_HELD.load(Ordering::Relaxed) > 0 {
      let class = (layout.size() + 7) / 8;
      lock();
      let mut prev: *mut u8 = std::ptr::null_mut();
      let mut cur = RHEAD[class];
      // exact size and alignment match only
      while !cur.is_null() {
        let hdr = cur.sub(HDR) as *mut Header;
        if (*hdr).size == layout.size() && (*hdr).align == layout.align() {
          let next = (*hdr).next;
          if prev.is_null() {
            RHEAD[class] = next;
          } else {
            (*(prev.sub(HDR) as *mut Header)).next = next;
          }
          if RTAIL[class] == cur {
            RTAIL[class] = prev;
          }
          (*hdr).magic = LIVE_MAGIC;
          (*hdr).next = std::ptr::null_mut();
          REUSE_HELD.fetch_sub(1, Ordering::Relaxed);
          REUSED.fetch_add(1, Ordering::Relaxed);
          unlock();
          LIVE_BYTES.fetch_add(layout.size() as i64, Ordering::Relaxed);
          LIVE_BLOCKS.fetch_add(1, Ordering::Relaxed);
          return cur;
        }
        prev = cur;
        cur = (*hdr).next;
      }
      unlock();
    }
    let pad = pad_for(layout.align());
    let base = System.alloc(outer_layout(layout.size(), layout.align()));
    if base.is_null() {
      return base;
    }
    let user = base.add(pad);
    let hdr = user.sub(HDR) as *mut Header;
    (*hdr).size = layout.size();
    (*hdr).align = layout.align();
    (*hdr).magic = LIVE_MAGIC;
    (*hdr).next = std::ptr::null_mut();
    LIVE_BYTES.fetch_add(layout.size() as i64, Ordering::Relaxed);
    LIVE_BLOCKS.fetch_add(1, Ordering::Relaxed);
    user
  }

  unsafe fn dealloc(&self, ptr: *mut u8, layout: Layout) {
    let hdr = ptr.sub(HDR) as *mut Header;
    if (*hdr).magic != LIVE_MAGIC {
      // double free or a pointer we never handed out: do not touch it
      BAD_FREE.fetch_add(1, Ordering::Relaxed);
      return;
    }
    let size = (*hdr).size;
    let align = (*hdr).align;
    RELEASES.fetch_add(1, Ordering::Relaxed);
    if size != layout.size() || align != layout.align() {
      if MISMATCH.fetch_add(1, Ordering::Relaxed) == 0 {
        FIRST_MISMATCH[0].store(size, Ordering::Relaxed);
        FIRST_MISMATCH[1].store(align, Ordering::Relaxed);
        FIRST_MISMATCH[2].store(layout.size(), Ordering::Relaxed);
        FIRST_MISMATCH[3].store(layout.align(), Ordering::Relaxed);
      }
    }
    LIVE_BYTES.fetch_sub(size as i64, Ordering::Relaxed);
    LIVE_BLOCKS.fetch_sub(1, Ordering::Relaxed);

    let mode = MODE.load(Ordering::Relaxed);
    if mode >= 3 {
      if size <= REUSE_MAX && align <= 16 {
        let class = (size + 7) / 8;
        lock();
        (*hdr).magic = FREED_MAGIC;
        if mode == 3 || RHEAD[class].is_null() {
          // LIFO: push at the head (FIFO with an empty list is the same)
          (*hdr).next = RHEAD[class];
          if RHEAD[class].is_null() {
            RTAIL[class] = ptr;
          }
          RHEAD[class] = ptr;
        } else {
          // FIFO: append at the tail, allocation pops the head
          (*hdr).next = std::ptr::null_mut();
          (*(RTAIL[class].sub(HDR) as *mut Header)).next = ptr;
          RTAIL[class] = ptr;
        }
        REUSE_HELD.fetch_add(1, Ordering::Relaxed);
        unlock();
        return;
      }
    } else if mode != 0 {
      lock();
      if TABLE_FILL.load(Ordering::Relaxed) < TABLE_MAX_FILL {
        (*hdr).magic = FREED_MAGIC;
        if mode == 1 {
          std::ptr::write_bytes(ptr, POISON, size);
        }
        (*hdr).next = QHEAD;
        QHEAD = ptr;
        table_insert(ptr as usize);
        QUARANTINED.fetch_add(1, Ordering::Relaxed);
        unlock();
        return;
      }
      OVERFLOW.store(true, Ordering::Relaxed);
      unlock();
    }

    (*hdr).magic = 0;
    System.dealloc(ptr.sub(pad_for(align)), outer_layout(size, align));
  }
}

/// Select the mode for the blocks freed from now on
pub fn set_mode(mode: u8) {
  MODE.store(mode, Ordering::SeqCst);
}

/// Give every quarantined block back to the system and forget them
pub fn release_quarantine() {
  let prev = MODE.swap(0, Ordering::SeqCst);
  lock();
  unsafe {
    let mut cur = QHEAD;
    QHEAD = std::ptr::null_mut();
    while !cur.is_null() {
      let hdr = cur.sub(HDR) as *mut Header;
      let next = (*hdr).next;
      let size = (*hdr).size;
      let align = (*hdr).align;
      (*hdr).magic = 0;
      System.dealloc(cur.sub(pad_for(align)), outer_layout(size, align));
      cur = next;
    }
  }
  unsafe {
    for class in 0..REUSE_CLASSES {
      let mut cur = RHEAD[class];
      RHEAD[class] = std::ptr::null_mut();
      RTAIL[class] = std::ptr::null_mut();
      while !cur.is_null() {
        let hdr = cur.sub(HDR) as *mut Header;
        let next = (*hdr).next;
        let size = (*hdr).size;
        let align = (*hdr).align;
        (*hdr).magic = 0;
        System.dealloc(cur.sub(pad_for(align)), outer_layout(size, align));
        cur = next;
      }
    }
    REUSE_HELD.store(0, Ordering::Relaxed);
  }
  if TABLE_FILL.load(Ordering::Relaxed) > 0 {
    for slot in TABLE.iter() {
      slot.store(0, Ordering::Relaxed);
    }
    TABLE_FILL.store(0, Ordering::Relaxed);
  }
  unlock();
  MODE.store(prev, Ordering::SeqCst);
}

/// Was the block starting at `addr` released during the current case
pub fn is_quarantined(addr: usize) -> bool {
  if TABLE_FILL.load(Ordering::Relaxed) == 0 {
    return false;
  }
  lock();
  let found = table_contains(addr);
  unlock();
  found
}

/// The size recorded for the live block starting at `addr`, if it is one of ours
pub fn recorded_size(addr: usize) -> Option<(usize, usize)> {
  unsafe {
    let hdr = (addr as *const u8).sub(HDR) as *const Header;
    if (*hdr).magic == LIVE_MAGIC {
      Some(((*hdr).size, (*hdr).align))
    } else {
      None
    }
  }
}

#[derive(Debug, Clone, Copy, Default)]
pub struct Counters {
  pub mismatch: u64,
  pub bad_free: u64,
  pub releases: u64,
  pub quarantined: u64,
  pub live_bytes: i64,
  pub live_blocks: i64,
  pub overflow: bool,
  pub reused: u64,
  pub first_mismatch: [usize; 4],
}

pub fn counters() -> Counters {
  Counters {
    mismatch: MISMATCH.load(Ordering::Relaxed),
    bad_free: BAD_FREE.load(Ordering::Relaxed),
    releases: RELEASES.load(Ordering::Relaxed),
    quarantined: QUARANTINED.load(Ordering::Relaxed),
    live_bytes: LIVE_BYTES.load(Ordering::Relaxed),
    live_blocks: LIVE_BLOCKS.load(Ordering::Relaxed),
    overflow: OVERFLOW.load(Ordering::Relaxed),
    reused: REUSED.load(Ordering::Relaxed),
    first_mismatch: [
      FIRST_MISMATCH[0].load(Ordering::Relaxed),
      FIRST_MISMATCH[1].load(Ordering::Relaxed),
      FIRST_MISMATCH[2].load(Ordering::Relaxed),
      FIRST_MISMATCH[3].load(Ordering::Relaxed),
    ],
  }
}

/// Zero the per case counters (live totals are kept)
pub fn reset_case_counters() {
  MISMATCH.store(0, Ordering::Relaxed);
  BAD_FREE.store(0, Ordering::Relaxed);
  RELEASES.store(0, Ordering::Relaxed);
  QUARANTINED.store(0, Ordering::Relaxed);
  REUSED.store(0, Ordering::Relaxed);
  OVERFLOW.store(false, Ordering::Relaxed);
}
