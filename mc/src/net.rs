//! Process-network model for C07/C08 (Rust port of vlib/netmodel.py, which stays
//! as the readable reference and is cross-checked against this one).
//!
//! cmd "net": {kinds:[0|1|2..], fibers:[[[op,chan],..],..], wrap:[f,i]|null}
//!   op: 0 send, 1 recv, 2 close, 3 launch (the second field is then the fiber that is launched; fibers no script
//!   launches are launched by main before its first operation); kind: 0 sync, n>0 buffered with capacity n.
//! The program text is generated here, run on the real VM, and the printed
//! completion lines are replayed against the model.

use serde_json::{json, Value as J};
use std::collections::HashSet;

type Script = Vec<(u8, u8)>;

#[derive(Clone, PartialEq, Eq, Hash, Debug)]
struct Chan {
  q: Vec<u16>,
  closed: bool,
  offer: Option<(u8, u16)>,
}

#[derive(Clone, PartialEq, Eq, Hash, Debug)]
struct State {
  pcs: Vec<u8>,
  chans: Vec<Chan>,
  rel: u32, // bitset of released synchronous senders
  started: u32, // bitset of launched fibers
}

#[derive(Clone, Copy, PartialEq, Eq, Debug)]
enum Why {
  Plain,
  Closed,
  Released,
  /// receive of a value sitting in a buffered channel
  BufRecv,
  /// buffered send into free capacity
  BufSend,
  /// receive of a parked synchronous offer
  SyncRecv,
  /// a synchronous sender can place its offer (the channel holds no other offer)
  Offer,
}

#[derive(Clone, PartialEq, Eq, Debug)]
enum Ev {
  Tau,
  Done(u8, u8, u8, Option<u16>), // fiber, index, op, value (u16::MAX = nil)
  Err(u8, u8),
}

const NIL: u16 = u16::MAX;

fn val(f: usize, i: usize) -> u16 {
  (f * 64 + i) as u16
}

fn val_name(v: u16) -> String {
  if v == NIL {
    "nil".to_string()
  } else {
    format!("v{}_{}", v / 64, v % 64)
  }
}

pub struct Net {
  kinds: Vec<u8>,
  fibers: Vec<Script>,
}

impl Net {
  fn init(&self) -> State {
    State {
      pcs: vec![0; self.fibers.len()],
      chans: self.kinds.iter().map(|_| Chan { q: vec![], closed: false, offer: None }).collect(),
      rel: 0,
      started: self.started_at_init(),
    }
  }

  /// main and every fiber that no script launches
  fn started_at_init(&self) -> u32 {
    let mut launched_later = 0u32;
    for s in &self.fibers {
      for (op, j) in s {
        if *op == 3 {
          launched_later |= 1 << *j;
        }
      }
    }
    let mut st = 0u32;
    for f in 0..self.fibers.len() {
      if launched_later & (1 << f) == 0 {
        st |= 1 << f;
      }
    }
    st
  }

  fn steps(&self, st: &State, out: &mut Vec<(Ev, State, Why)>) {
    out.clear();
    for (f, s) in self.fibers.iter().enumerate() {
      let i = st.pcs[f] as usize;
      if i >= s.len() || st.started & (1 << f) == 0 {
        continue;
      }
      let (op, c) = s[i];
      let c = c as usize;
      if op == 3 {
        // launch: the child becomes runnable, the parent goes on
        let mut n = st.clone();
        n.pcs[f] += 1;
        n.started |= 1 << c;
        out.push((Ev::Done(f as u8, i as u8, 3, None), n, Why::Plain));
        continue;
      }
      let ch = &st.chans[c];
      let sync = self.kinds[c] == 0;
      let adv = |st: &State| {
        let mut n = st.clone();
        n.pcs[f] += 1;
        n
      };
      match op {
        0 => {
          if sync {
            if st.rel & (1 << f) != 0 {
              let mut n = adv(st);
              n.rel &= !(1 << f);
              out.push((Ev::Done(f as u8, i as u8, 0, None), n, Why::Released));
              continue;
            }
            if let Some((of, _)) = ch.offer {
              if of as usize == f {
                continue;
              }
            }
            if ch.closed {
              out.push((Ev::Err(f as u8, i as u8), st.clone(), Why::Closed));
            } else if ch.offer.is_none() {
              let mut n = st.clone();
              n.chans[c].offer = Some((f as u8, val(f, i)));
              out.push((Ev::Tau, n, Why::Offer));
            }
          } else if ch.closed {
            out.push((Ev::Err(f as u8, i as u8), st.clone(), Why::Closed));
          } else if ch.q.len() < self.kinds[c] as usize {
            let mut n = adv(st);
            n.chans[c].q.push(val(f, i));
            out.push((Ev::Done(f as u8, i as u8, 0, None), n, Why::BufSend));
          }
        },
        1 => {
          if sync {
            if let Some((of, v)) = ch.offer {
              let mut n = adv(st);
              n.chans[c].offer = None;
              n.rel |= 1 << of;
              out.push((Ev::Done(f as u8, i as u8, 1, Some(v)), n, Why::SyncRecv));
            } else if ch.closed {
              out.push((Ev::Done(f as u8, i as u8, 1, Some(NIL)), adv(st), Why::Closed));
            }
          } else if !ch.q.is_empty() {
            let mut n = adv(st);
            let v = n.chans[c].q.remove(0);
            out.push((Ev::Done(f as u8, i as u8, 1, Some(v)), n, Why::BufRecv));
          } else if ch.closed {
            out.push((Ev::Done(f as u8, i as u8, 1, Some(NIL)), adv(st), Why::Closed));
          }
        },
        _ => {
          if ch.closed {
            out.push((Ev::Err(f as u8, i as u8), st.clone(), Why::Closed));
          } else {
            let mut n = adv(st);
            n.chans[c].closed = true;
            out.push((Ev::Done(f as u8, i as u8, 2, None), n, Why::Plain));
          }
        },
      }
    }
  }

  fn unspecified(&self, st: &State) -> bool {
    st.chans.iter().zip(self.kinds.iter()).any(|(c, k)| *k == 0 && c.closed && c.offer.is_some())
  }

  /// all schedules: (states, transitions, any unspecified state, deadlock states with main unfinished)
  fn explore(&self) -> (u64, u64, bool, u64) {
    let s0 = self.init();
    let mut seen: HashSet<State> = HashSet::new();
    seen.insert(s0.clone());
    let mut todo = vec![s0];
    let mut trans = 0;
    let mut unspec = false;
    let mut dead = 0;
    let mut buf = vec![];
    while let Some(s) = todo.pop() {
      if self.unspecified(&s) {
        unspec = true;
      }
      self.steps(&s, &mut buf);
      if buf.is_empty() && (s.pcs[0] as usize) < self.fibers[0].len() {
        dead += 1;
      }
      for (ev, n, _) in buf.drain(..) {
        trans += 1;
        if matches!(ev, Ev::Err(..)) {
          continue;
        }
        if seen.insert(n.clone()) {
          todo.push(n);
        }
      }
    }
    (seen.len() as u64, trans, unspec, dead)
  }

  fn tau_closure(&self, set: &mut HashSet<State>) {
    let mut todo: Vec<State> = set.iter().cloned().collect();
    let mut buf = vec![];
    while let Some(s) = todo.pop() {
      self.steps(&s, &mut buf);
      for (ev, n, _) in buf.drain(..) {
        if ev == Ev::Tau && set.insert(n.clone()) {
          todo.push(n);
        }
      }
    }
  }

  /// (verdict, detail); verdict "" = conforming
  fn check_trace(&self, class: &str, lines: &[&str]) -> (String, String) {
    let mut set: HashSet<State> = HashSet::new();
    set.insert(self.init());
    self.tau_closure(&mut set);
    let mut main_end = false;
    let mut buf = vec![];
    for ln in lines {
      if *ln == "0 end" {
        main_end = true;
        continue;
      }
      let p: Vec<&str> = ln.split(' ').collect();
      let parsed = (|| {
        let f: u8 = p.first()?.parse().ok()?;
        let i: u8 = p.get(1)?.parse().ok()?;
        let op = match *p.get(2)? {
          "s" => 0u8,
          "r" => 1,
          "c" => 2,
          "l" => 3,
          _ => return None,
        };
        let v = match p.get(3) {
          None => None,
          Some(&"nil") => Some(NIL),
          Some(t) => {
            let t = t.strip_prefix('v')?;
            let (a, b) = t.split_once('_')?;
            Some((a.parse::<u16>().ok()? * 64) + b.parse::<u16>().ok()?)
          },
        };
        Some(Ev::Done(f, i, op, v))
      })();
      let want = match parsed {
        Some(e) => e,
        None => return ("safety".into(), format!("unparsable line {ln:?}")),
      };
      let mut next: HashSet<State> = HashSet::new();
      for s in &set {
        self.steps(s, &mut buf);
        for (ev, n, _) in buf.drain(..) {
          if ev == want {
            next.insert(n);
          }
        }
      }
      if next.is_empty() {
        return ("safety".into(), format!("completed step not enabled in the model: {ln:?}"));
      }
      set = next;
      self.tau_closure(&mut set);
    }
    if set.iter().any(|s| self.unspecified(s)) {
      return ("".into(), "unspecified".into());
    }
    let main_len = self.fibers[0].len();
    match class {
      "ok" => {
        if !main_end {
          return ("no-main-end".into(), "normal exit without main reaching its end".into());
        }
        if !set.iter().any(|s| s.pcs[0] as usize == main_len) {
          return ("early-exit".into(), "main ended before completing its operations".into());
        }
      },
      "deadlock" => {
        let mut legit = false;
        let mut all_rel = true;
        let mut all_closed = true;
        let mut all_bufrecv = true;
        let mut all_bufsend = true;
        let mut all_syncrecv = true;
        let mut all_some = true;
        for s in &set {
          self.steps(s, &mut buf);
          if buf.is_empty() && (s.pcs[0] as usize) < main_len {
            legit = true;
          }
          if s.rel == 0 {
            all_rel = false;
          }
          if !buf.iter().any(|(_, _, w)| *w == Why::Closed) {
            all_closed = false;
          }
          if !buf.iter().any(|(_, _, w)| *w == Why::BufRecv) {
            all_bufrecv = false;
          }
          if !buf.iter().any(|(_, _, w)| *w == Why::BufSend) {
            all_bufsend = false;
          }
          if !buf.iter().any(|(_, _, w)| *w == Why::SyncRecv) {
            all_syncrecv = false;
          }
          if !buf.iter().any(|(_, _, w)| *w != Why::Plain) {
            all_some = false;
          }
          buf.clear();
        }
        if !legit {
          let detail = if all_rel {
            "released"
          } else if all_closed {
            "closed"
          } else if all_bufrecv {
            "bufrecv"
          } else if all_bufsend {
            "bufsend"
          } else if all_syncrecv {
            "syncrecv"
          } else if all_some {
            // every state consistent with the trace has a parked fiber whose operation is enabled, but not the same kind in all of them
            "mixed"
          } else {
            "other"
          };
          return ("spurious-deadlock".into(), detail.into());
        }
      },
      "runtime_error" => {
        let mut ok = false;
        for s in &set {
          self.steps(s, &mut buf);
          if buf.iter().any(|(e, _, _)| matches!(e, Ev::Err(..))) {
            ok = true;
          }
          buf.clear();
        }
        if !ok {
          return ("unexpected-error".into(), "an error ended the program but the model enables no error here".into());
        }
      },
      other => return ("crash".into(), other.to_string()),
    }
    ("".into(), "".into())
  }

  fn body(&self, f: usize, wrap: Option<usize>, heap: bool) -> String {
    let mut out = vec![];
    for (i, (op, c)) in self.fibers[f].iter().enumerate() {
      let mut st = match op {
        // heap mode: every value is a fresh list only the channel refers to and a full collection is forced after every operation
        // (the marker arms the collector for the next allocation, which the list literal behind it provides at once)
        0 if heap => format!("c{c} <- ['{}', {i}]; print('{f} {i} s'); print('@@gc full'); [{i}];", val_name(val(f, i))),
        1 if heap => format!("let x{i} = <- c{c}; print('@@gc full'); [{i}]; print('{f} {i} r ' + (x{i} == nil ? 'nil' : x{i}[0]));"),
        0 => format!("c{c} <- '{}'; print('{f} {i} s');", val_name(val(f, i))),
        1 => format!("let x{i} = <- c{c}; print('{f} {i} r ' + (x{i} == nil ? 'nil' : x{i}));"),
        3 => format!("launch f{c}({}); print('{f} {i} l');", (0..self.kinds.len()).map(|k| format!("c{k}")).collect::<Vec<_>>().join(", ")),
        _ => format!("c{c}.close(); print('{f} {i} c');"),
      };
      if wrap == Some(i) {
        st = format!("[0].iter().each(|_z| {{ {st} }});");
      }
      out.push(st);
    }
    out.join(" ")
  }

  pub fn program(&self, wrap: Option<(usize, usize)>) -> String {
    self.program_mode(wrap, false)
  }

  pub fn program_mode(&self, wrap: Option<(usize, usize)>, heap: bool) -> String {
    let mut l = vec![];
    for (c, k) in self.kinds.iter().enumerate() {
      if *k == 0 {
        l.push(format!("let c{c} = chan();"));
      } else {
        l.push(format!("let c{c} = chan({k});"));
      }
    }
    let params: Vec<String> = (0..self.kinds.len()).map(|c| format!("c{c}")).collect();
    let params = params.join(", ");
    for f in 1..self.fibers.len() {
      let w = wrap.and_then(|(wf, wi)| if wf == f { Some(wi) } else { None });
      l.push(format!("fn f{f}({params}) {{ {} }}", self.body(f, w, heap)));
    }
    let at_init = self.started_at_init();
    for f in 1..self.fibers.len() {
      if at_init & (1 << f) != 0 {
        l.push(format!("launch f{f}({params});"));
      }
    }
    let w = wrap.and_then(|(wf, wi)| if wf == 0 { Some(wi) } else { None });
    l.push(self.body(0, w, heap));
    l.push("print('0 end');".to_string());
    l.join("\n")
  }
}

pub fn parse(c: &J) -> Option<(Net, Option<(usize, usize)>)> {
  let kinds: Vec<u8> = c.get("kinds")?.as_array()?.iter().map(|k| k.as_u64().unwrap_or(0) as u8).collect();
  let mut fibers = vec![];
  for f in c.get("fibers")?.as_array()? {
    let mut s = vec![];
    for o in f.as_array()? {
      let o = o.as_array()?;
      s.push((o[0].as_u64()? as u8, o[1].as_u64()? as u8));
    }
    fibers.push(s);
  }
  let wrap = c.get("wrap").and_then(|w| w.as_array()).map(|w| (w[0].as_u64().unwrap_or(0) as usize, w[1].as_u64().unwrap_or(0) as usize));
  Some((Net { kinds, fibers }, wrap))
}

/// model only: used to cross-check this port against the Python reference
pub fn model_stats(c: &J) -> J {
  match parse(c) {
    Some((net, _)) => {
      let (s, t, u, d) = net.explore();
      json!({"states": s, "transitions": t, "unspecified": u, "deadlocks": d})
    },
    None => json!({"error": "bad net"}),
  }
}

pub fn finish(net: &Net, res: &mut J) {
  let (s, t, u, d) = net.explore();
  let class = res["class"].as_str().unwrap_or("").to_string();
  let out = res["out"].as_str().unwrap_or("").to_string();
  let lines: Vec<&str> = out.split('\n').filter(|l| !l.is_empty()).collect();
  let (verdict, detail) = if matches!(class.as_str(), "panic" | "signal" | "timeout" | "step_limit") {
    ("crash".to_string(), class.clone())
  } else {
    net.check_trace(&class, &lines)
  };
  res["net"] = json!({"states": s, "transitions": t, "unspecified": u, "deadlocks": d, "verdict": verdict, "detail": detail});
}
