//! Symbolic stack machine for C12: decides whether two SymbolicByteCode
//! sequences are equivalent by executing both over a hash-consed term algebra
//! (distinct symbols for the initial stack slots and variable contents) and
//! comparing, segment by segment (entry and every label), the emitted events
//! (stores, calls, effects, control transfers with their stack snapshots) and the
//! final stacks. Deciding is syntactic comparison after deterministic abstract
//! execution; no solver is involved.

use laythe_vm::verif::{self, Label, PeepholeRecord, SymbolicByteCode as S};
use serde_json::{json, Value as J};
use std::collections::HashMap;

type T = u32;

#[derive(Default)]
struct Arena {
  map: HashMap<(u32, Vec<u32>), T>,
}

impl Arena {
  fn mk(&mut self, tag: u32, args: Vec<u32>) -> T {
    let n = self.map.len() as u32;
    *self.map.entry((tag, args)).or_insert(n)
  }
}

// term / event tags
const IN: u32 = 1; // initial stack slot k (counted from the top)
const VAR: u32 = 2; // initial content of variable (space, slot, version)
const CONST: u32 = 3; // literal (code, operand)
const RES: u32 = 4; // result j of event e
const EV: u32 = 100; // generic effectful op: EV + opcode code

#[derive(Clone, PartialEq, Eq, Debug)]
struct Event {
  tag: u32,
  args: Vec<u32>,
}

#[derive(Default)]
struct Seg {
  label: Option<u32>,
  events: Vec<Event>,
  /// None when the segment ends in an unconditional transfer
  end_stack: Option<Vec<T>>,
  underflow: u32,
}

struct Exec<'a> {
  ar: &'a mut Arena,
  stack: Vec<T>,
  inputs: u32,
  events: Vec<Event>,
  vars: HashMap<(u32, u32), T>,
  version: u32,
  dead: bool,
}

impl<'a> Exec<'a> {
  fn new(ar: &'a mut Arena) -> Self {
    Exec { ar, stack: vec![], inputs: 0, events: vec![], vars: HashMap::new(), version: 0, dead: false }
  }

  fn pop(&mut self) -> T {
    match self.stack.pop() {
      Some(t) => t,
      None => {
        let t = self.ar.mk(IN, vec![self.inputs]);
        self.inputs += 1;
        t
      },
    }
  }

  fn peek(&mut self, depth: usize) -> T {
    while self.stack.len() <= depth {
      let t = self.ar.mk(IN, vec![self.inputs]);
      self.inputs += 1;
      self.stack.insert(0, t);
    }
    self.stack[self.stack.len() - 1 - depth]
  }

  fn push(&mut self, t: T) {
    self.stack.push(t);
  }

  fn load(&mut self, space: u32, slot: u32) -> T {
    if let Some(t) = self.vars.get(&(space, slot)) {
      return *t;
    }
    // spaces other than plain locals can be changed by calls: versioned
    let ver = if space == 0 { 0 } else { self.version };
    let t = self.ar.mk(VAR, vec![space, slot, ver]);
    self.vars.insert((space, slot), t);
    t
  }

  fn store(&mut self, space: u32, slot: u32) {
    let t = self.peek(0);
    self.events.push(Event { tag: 10 + space, args: vec![slot, t] });
    self.vars.insert((space, slot), t);
  }

  /// a call (or anything that can run arbitrary code) invalidates what is known
  /// about variables other code can reach
  fn clobber(&mut self) {
    self.version += 1;
    self.vars.retain(|(space, _), _| *space == 0);
  }

  /// generic instruction: pops `pops`, emits an event, pushes `pushes` results
  fn effect(&mut self, code: u32, operands: &[u32], pops: usize, pushes: usize, clobbers: bool) {
    let mut args: Vec<u32> = operands.to_vec();
    let mut popped = vec![];
    for _ in 0..pops {
      popped.push(self.pop());
    }
    popped.reverse();
    args.extend(popped);
    let id = self.events.len() as u32;
    self.events.push(Event { tag: EV + code, args: args.clone() });
    let ev_term = self.ar.mk(EV + code, { let mut a = args; a.push(id); a });
    for j in 0..pushes {
      let r = self.ar.mk(RES, vec![ev_term, j as u32]);
      self.push(r);
    }
    if clobbers {
      self.clobber();
    }
  }

  fn transfer(&mut self, code: u32, label: u32) {
    let mut args = vec![label];
    args.push(self.inputs);
    args.extend(self.stack.iter().copied());
    self.events.push(Event { tag: 50 + code, args });
  }

  fn step(&mut self, i: &S) {
    if self.dead {
      return;
    }
    match *i {
      S::Drop => { self.pop(); },
      S::DropN(n) => { for _ in 0..n { self.pop(); } },
      S::Dup => { let t = self.peek(0); self.push(t); },
      S::Nil => { let t = self.ar.mk(CONST, vec![0]); self.push(t); },
      S::True => { let t = self.ar.mk(CONST, vec![1]); self.push(t); },
      S::False => { let t = self.ar.mk(CONST, vec![2]); self.push(t); },
      S::Constant(c) => { let t = self.ar.mk(CONST, vec![3, c as u32]); self.push(t); },
      S::ConstantLong(c) => { let t = self.ar.mk(CONST, vec![3, c as u32]); self.push(t); },
      S::GetLocal(s) => { let t = self.load(0, s as u32); self.push(t); },
      S::SetLocal(s) => self.store(0, s as u32),
      S::GetBox(s) => { let t = self.load(1, s as u32); self.push(t); },
      S::SetBox(s) => self.store(1, s as u32),
      S::GetCapture(s) => { let t = self.load(2, s as u32); self.push(t); },
      S::SetCapture(s) => self.store(2, s as u32),
      S::GetModSym(s) => { let t = self.load(3, s as u32); self.push(t); },
      S::SetModSym(s) => self.store(3, s as u32),
      S::PropertySlot | S::InvokeSlot | S::ArgumentDelimiter => (),
      S::Label(_) => unreachable!("segments are split at labels"),
      // property get: may raise, may not run user code
      S::GetPropByName(s) => self.effect(1, &[s as u32], 1, 1, false),
      S::GetProp(s) => self.effect(1, &[s as u32], 1, 1, false),
      S::SetPropByName(s) | S::SetProp(s) => self.effect(2, &[s as u32], 2, 1, false),
      // call n: callee + n args -> result. By definition of the fused instructions:
      // Invoke (s, n) = GetPropByName s on the receiver below the n arguments, then Call n
      S::Call(n) => self.effect(3, &[n as u32], n as usize + 1, 1, true),
      S::Invoke((s, n)) => {
        let mut args = vec![];
        for _ in 0..n { args.push(self.pop()); }
        self.effect(1, &[s as u32], 1, 1, false);
        while let Some(a) = args.pop() { self.push(a); }
        self.effect(3, &[n as u32], n as usize + 1, 1, true);
      },
      // GetSuper s: pops [self, super class] pushes bound method; SuperInvoke (s, n) fuses it with Call n
      S::GetSuper(s) => self.effect(4, &[s as u32], 2, 1, false),
      S::SuperInvoke((s, n)) => {
        // stack: self, args..., super class
        let sup = self.pop();
        let mut args = vec![];
        for _ in 0..n { args.push(self.pop()); }
        self.push(sup);
        self.effect(4, &[s as u32], 2, 1, false);
        while let Some(a) = args.pop() { self.push(a); }
        self.effect(3, &[n as u32], n as usize + 1, 1, true);
      },
      S::Add => self.effect(5, &[0], 2, 1, false),
      S::Subtract => self.effect(5, &[1], 2, 1, false),
      S::Multiply => self.effect(5, &[2], 2, 1, false),
      S::Divide => self.effect(5, &[3], 2, 1, false),
      S::Negate => self.effect(5, &[4], 1, 1, false),
      S::Not => self.effect(5, &[5], 1, 1, false),
      S::Equal => self.effect(5, &[6], 2, 1, false),
      S::NotEqual => self.effect(5, &[7], 2, 1, false),
      S::Greater => self.effect(5, &[8], 2, 1, false),
      S::GreaterEqual => self.effect(5, &[9], 2, 1, false),
      S::Less => self.effect(5, &[10], 2, 1, false),
      S::LessEqual => self.effect(5, &[11], 2, 1, false),
      S::JumpIfFalse(l) => { let c = self.pop(); self.events.push(Event { tag: 40, args: vec![c] }); self.transfer(0, l.val()); },
      S::And(l) => { let c = self.peek(0); self.events.push(Event { tag: 41, args: vec![c] }); self.transfer(1, l.val()); self.pop(); },
      S::Or(l) => { let c = self.peek(0); self.events.push(Event { tag: 42, args: vec![c] }); self.transfer(2, l.val()); self.pop(); },
      S::Jump(l) => { self.transfer(3, l.val()); self.dead = true; },
      S::Loop(l) => { self.transfer(4, l.val()); self.dead = true; },
      S::Return => { let v = self.pop(); self.events.push(Event { tag: 45, args: vec![v] }); self.dead = true; },
      S::Raise => { let v = self.pop(); self.events.push(Event { tag: 46, args: vec![v] }); self.dead = true; },
      S::List(n) => self.effect(6, &[n as u32], n as usize, 1, false),
      S::Tuple(n) => self.effect(7, &[n as u32], n as usize, 1, false),
      S::Map(n) => self.effect(8, &[n as u32], 2 * n as usize, 1, false),
      S::Interpolate(n) => self.effect(9, &[n as u32], n as usize, 1, true),
      S::PushHandler((_, l)) => { self.transfer(5, l.val()); },
      S::PopHandler => self.effect(11, &[], 0, 0, false),
      S::CheckHandler(l) => { let c = self.pop(); self.events.push(Event { tag: 43, args: vec![c] }); self.transfer(6, l.val()); },
      S::GetError => self.effect(12, &[], 0, 1, false),
      S::FinishUnwind => self.effect(13, &[], 0, 0, false),
      S::ContinueUnwind => { self.events.push(Event { tag: 47, args: vec![] }); self.dead = true; },
      S::Send => self.effect(14, &[], 2, 1, true),
      S::Receive => self.effect(15, &[], 1, 1, true),
      S::Channel => self.effect(16, &[], 0, 1, false),
      S::BufferedChannel => self.effect(17, &[], 1, 1, false),
      S::Launch(n) => self.effect(18, &[n as u32], n as usize + 1, 0, true),
      S::IterNext(s) => self.effect(19, &[s as u32], 1, 1, true),
      S::IterCurrent(s) => self.effect(20, &[s as u32], 1, 1, true),
      S::Import(s) => self.effect(21, &[s as u32], 0, 1, true),
      S::ImportSym((a, b)) => self.effect(22, &[a as u32, b as u32], 0, 1, true),
      S::Export(s) => self.effect(23, &[s as u32], 1, 1, false),
      S::LoadGlobal(s) => self.effect(24, &[s as u32], 0, 1, false),
      S::DeclareModSym((a, b)) => { self.effect(25, &[a as u32, b as u32], 1, 1, false); self.vars.remove(&(3, b as u32)); },
      S::Box(s) => { self.effect(26, &[s as u32], 0, 0, false); self.vars.remove(&(0, s as u32)); self.vars.remove(&(1, s as u32)); },
      S::EmptyBox => self.effect(27, &[], 0, 1, false),
      S::FillBox => self.effect(28, &[], 2, 1, false),
      S::Closure(s) => self.effect(29, &[s as u32], 0, 1, false),
      S::CaptureIndex(c) => {
        let (k, v) = match c { verif::CaptureIndex::Local(v) => (0, v), verif::CaptureIndex::Enclosing(v) => (1, v) };
        self.effect(30, &[k, v as u32], 0, 0, false)
      },
      S::Method(s) => self.effect(31, &[s as u32], 2, 1, false),
      S::StaticMethod(s) => self.effect(32, &[s as u32], 2, 1, false),
      S::Field(s) => self.effect(33, &[s as u32], 1, 1, false),
      S::Class(s) => self.effect(34, &[s as u32], 0, 1, false),
      S::Inherit => self.effect(35, &[], 2, 2, false),
    }
  }
}

fn run(ar: &mut Arena, code: &[S]) -> Vec<Seg> {
  let mut segs = vec![];
  let mut start = 0;
  let mut label: Option<u32> = None;
  let mut i = 0;
  loop {
    let at_end = i == code.len();
    let is_label = !at_end && matches!(code[i], S::Label(_));
    if at_end || is_label {
      let mut ex = Exec::new(ar);
      for ins in &code[start..i] {
        ex.step(ins);
      }
      let end_stack = if ex.dead { None } else { Some(ex.stack.clone()) };
      segs.push(Seg { label, events: ex.events, end_stack, underflow: ex.inputs });
      if at_end {
        break;
      }
      if let S::Label(l) = code[i] {
        label = Some(l.val());
      }
      start = i + 1;
    }
    i += 1;
  }
  segs
}

/// None when equivalent, otherwise a description of the first difference
pub fn equivalent(a: &[S], b: &[S]) -> Option<String> {
  let mut ar = Arena::default();
  let sa = run(&mut ar, a);
  let sb = run(&mut ar, b);
  if sa.len() != sb.len() {
    return Some(format!("label structure differs: {} vs {} segments", sa.len(), sb.len()));
  }
  for (k, (x, y)) in sa.iter().zip(sb.iter()).enumerate() {
    if x.label != y.label {
      return Some(format!("segment {k}: label {:?} vs {:?}", x.label, y.label));
    }
    if x.events != y.events {
      return Some(format!("segment {k} (label {:?}): events differ: {:?} vs {:?}", x.label, x.events, y.events));
    }
    match (&x.end_stack, &y.end_stack) {
      (None, None) => (),
      (Some(p), Some(q)) => {
        if p != q || x.underflow != y.underflow {
          return Some(format!("segment {k} (label {:?}): final stack differs: {:?}/{} vs {:?}/{}", x.label, p, x.underflow, q, y.underflow));
        }
      },
      _ => return Some(format!("segment {k} (label {:?}): one side falls through, the other transfers control", x.label)),
    }
  }
  None
}

/// structural validity of an optimised stream for the encoder
fn well_formed(code: &[S]) -> Option<String> {
  for (i, ins) in code.iter().enumerate() {
    match ins {
      S::Invoke(_) | S::SuperInvoke(_) => {
        if !matches!(code.get(i + 1), Some(S::InvokeSlot)) {
          return Some(format!("{ins:?} at {i} not followed by its cache slot"));
        }
      },
      S::GetPropByName(_) | S::SetPropByName(_) => {
        if !matches!(code.get(i + 1), Some(S::PropertySlot)) {
          return Some(format!("{ins:?} at {i} not followed by its cache slot"));
        }
      },
      S::InvokeSlot => {
        if i == 0 || !matches!(code[i - 1], S::Invoke(_) | S::SuperInvoke(_)) {
          return Some(format!("stray InvokeSlot at {i}"));
        }
      },
      S::PropertySlot => {
        if i == 0 || !matches!(code[i - 1], S::GetPropByName(_) | S::SetPropByName(_)) {
          return Some(format!("stray PropertySlot at {i}"));
        }
      },
      S::ArgumentDelimiter => return Some(format!("ArgumentDelimiter survived at {i}")),
      _ => (),
    }
  }
  None
}

/// every output instruction carries the line of the input instruction it derives from
fn lines_ok(input: &[S], in_lines: &[u16], out: &[S], out_lines: &[u16], distinct: bool) -> Option<String> {
  if out.len() != out_lines.len() {
    return Some(format!("{} instructions but {} line entries", out.len(), out_lines.len()));
  }
  if !distinct {
    // real streams: every output line must be a line of the input, in non decreasing input order
    for l in out_lines {
      if !in_lines.contains(l) {
        return Some(format!("line {l} does not occur in the input"));
      }
    }
    return None;
  }
  let mut last = 0usize;
  for (k, (ins, l)) in out.iter().zip(out_lines.iter()).enumerate() {
    let l = *l as usize;
    if l >= input.len() {
      return Some(format!("output {k}: line {l} out of range"));
    }
    if l < last {
      return Some(format!("output {k}: lines go backwards ({l} after {last})"));
    }
    last = l;
    let src = &input[l];
    let ok = src == ins
      || matches!((ins, src), (S::DropN(_), S::Drop) | (S::Drop, S::Drop))
      || matches!((ins, src), (S::Invoke(_), S::GetPropByName(_)) | (S::InvokeSlot, S::GetPropByName(_)))
      || matches!((ins, src), (S::SuperInvoke(_), S::GetSuper(_)) | (S::InvokeSlot, S::GetSuper(_)))
      || matches!((ins, src), (S::Dup, S::GetLocal(_)) | (S::Dup, S::GetBox(_)) | (S::Dup, S::GetCapture(_)) | (S::Dup, S::GetModSym(_)));
    if !ok {
      return Some(format!("output {k} ({ins:?}) carries the line of input {l} ({src:?})"));
    }
  }
  None
}

/// compiler invariants the optimiser may rely on
fn input_invariants(code: &[S]) -> Option<String> {
  // a function has at most 255 locals, so at most 255 values are dropped in a row
  let mut run = 0;
  for ins in code {
    if matches!(ins, S::Drop) {
      run += 1;
      if run > 255 {
        return Some("more than 255 consecutive Drop".to_string());
      }
    } else {
      run = 0;
    }
  }
  for (i, ins) in code.iter().enumerate() {
    match ins {
      S::Call(n) if *n > 0 => {
        if i == 0 || !matches!(code[i - 1], S::ArgumentDelimiter) {
          return Some(format!("Call {n} at {i} is not preceded by ArgumentDelimiter"));
        }
      },
      S::GetPropByName(_) | S::SetPropByName(_) => {
        if !matches!(code.get(i + 1), Some(S::PropertySlot)) {
          return Some(format!("{ins:?} at {i} not followed by PropertySlot"));
        }
      },
      S::PropertySlot => {
        if i == 0 || !matches!(code[i - 1], S::GetPropByName(_) | S::SetPropByName(_)) {
          return Some(format!("stray PropertySlot at {i}"));
        }
      },
      S::InvokeSlot | S::Invoke(_) | S::SuperInvoke(_) | S::DropN(_) | S::Dup => (),
      _ => (),
    }
  }
  None
}

pub fn check_one(input: &[S], in_lines: &[u16], distinct_lines: bool) -> (bool, Option<String>) {
  let (out, out_lines) = verif::peephole(input.to_vec(), in_lines.to_vec());
  let rewritten = out != input;
  if let Some(e) = equivalent(input, &out) {
    return (rewritten, Some(format!("not equivalent: {e}; output {out:?}")));
  }
  if let Some(e) = well_formed(&out) {
    return (rewritten, Some(format!("malformed output: {e}; output {out:?}")));
  }
  if let Some(e) = lines_ok(input, in_lines, &out, &out_lines, distinct_lines) {
    return (rewritten, Some(format!("line table: {e}; output {out:?} lines {out_lines:?}")));
  }
  (rewritten, None)
}

/// validate the recorded (input, output) pairs of real compilations
pub fn check_records(recs: &[PeepholeRecord]) -> J {
  let mut bad = vec![];
  let mut rewritten = 0;
  for (input, in_lines, out, out_lines) in recs {
    if out != input {
      rewritten += 1;
    }
    if let Some(e) = input_invariants(input) {
      bad.push(format!("compiler invariant broken in a real stream: {e}"));
      continue;
    }
    if let Some(e) = equivalent(input, out) {
      bad.push(format!("not equivalent: {e}"));
    } else if let Some(e) = well_formed(out) {
      bad.push(format!("malformed output: {e}"));
    } else if let Some(e) = lines_ok(input, in_lines, out, out_lines, false) {
      bad.push(format!("line table: {e}"));
    }
  }
  json!({"functions": recs.len(), "rewritten": rewritten, "bad": bad})
}

fn alphabet() -> Vec<S> {
  let l0 = Label::new(0);
  let l1 = Label::new(1);
  vec![
    S::Drop, S::GetPropByName(1), S::PropertySlot, S::Call(0), S::Call(1), S::GetSuper(1), S::ArgumentDelimiter,
    S::SetLocal(1), S::GetLocal(1), S::SetLocal(2), S::GetLocal(2),
    S::SetBox(1), S::GetBox(1), S::GetBox(2),
    S::SetCapture(1), S::GetCapture(1), S::GetCapture(2),
    S::SetModSym(1), S::GetModSym(1), S::GetModSym(2),
    S::Jump(l0), S::Loop(l1), S::Return, S::Raise, S::JumpIfFalse(l0),
    S::Nil, S::Add, S::Dup, S::DropN(2), S::SetPropByName(2),
    S::Label(l0), S::Label(l1),
    S::SetBox(2), S::SetCapture(2), S::SetModSym(2), S::GetPropByName(2), S::Call(2), S::GetSuper(2),
    // wide operands that collide with the small ones when narrowed to a byte (1 + 256)
    S::SetModSym(257), S::GetModSym(257), S::GetPropByName(257), S::GetSuper(257),
  ]
}

fn window_valid(w: &[S]) -> bool {
  let mut l0 = 0;
  let mut l1 = 0;
  for ins in w {
    if let S::Label(l) = ins {
      if l.val() == 0 { l0 += 1 } else { l1 += 1 }
    }
  }
  if l0 > 1 || l1 > 1 {
    return false;
  }
  input_invariants(w).is_none()
}

struct Tally {
  windows: u64,
  rewritten: u64,
  skipped: u64,
  bad: Vec<J>,
  bad_count: u64,
  samples: Vec<J>,
}

fn explore_len(alpha: &[S], len: usize, shard: u64, nshards: u64, t: &mut Tally) {
  let n = alpha.len() as u64;
  let total = n.pow(len as u32);
  let mut idx = shard;
  let mut w: Vec<S> = vec![S::Nil; len];
  while idx < total {
    let mut x = idx;
    for k in 0..len {
      w[len - 1 - k] = alpha[(x % n) as usize];
      x /= n;
    }
    if window_valid(&w) {
      let lines: Vec<u16> = (0..len as u16).collect();
      let (rew, err) = check_one(&w, &lines, true);
      t.windows += 1;
      if rew {
        t.rewritten += 1;
        if t.samples.len() < 3 && idx % 9973 == shard % 9973 {
          let (out, _) = verif::peephole(w.clone(), lines.clone());
          t.samples.push(json!({"window": format!("{w:?}"), "optimised": format!("{out:?}")}));
        }
      }
      if let Some(e) = err {
        t.bad_count += 1;
        if t.bad.len() < 20 {
          t.bad.push(json!({"window": format!("{w:?}"), "why": e}));
        }
      }
    } else {
      t.skipped += 1;
    }
    idx += nshards;
  }
}

fn drop_family(t: &mut Tally) {
  for n in [2usize, 3, 4, 100, 253, 254, 255] {
    for variant in 0..4 {
      let mut w: Vec<S> = vec![];
      match variant {
        0 => { for _ in 0..n { w.push(S::Drop); } },
        1 => { w.push(S::Nil); for _ in 0..n { w.push(S::Drop); } w.push(S::Return); },
        2 => { for k in 0..n { if k == n / 2 { w.push(S::Label(Label::new(0))); } w.push(S::Drop); } },
        _ => { w.push(S::SetLocal(1)); for _ in 0..n { w.push(S::Drop); } w.push(S::GetLocal(1)); },
      }
      let lines: Vec<u16> = (0..w.len() as u16).collect();
      let r = std::panic::catch_unwind(|| check_one(&w, &lines, true));
      t.windows += 1;
      match r {
        Ok((rew, err)) => {
          if rew { t.rewritten += 1; }
          if let Some(e) = err {
            t.bad_count += 1;
            if t.bad.len() < 20 {
              t.bad.push(json!({"window": format!("{} consecutive drops, variant {}", n, variant), "why": e.chars().take(300).collect::<String>()}));
            }
          }
        },
        Err(_) => {
          t.bad_count += 1;
          if t.bad.len() < 20 {
            t.bad.push(json!({"window": format!("{} consecutive drops, variant {}", n, variant), "why": "optimiser panicked"}));
          }
        },
      }
    }
  }
}

pub fn windows_cmd(_c: &J) -> J {
  J::Null
}

/// lvrun windows <max_len> <shard> <nshards> [reduced_len] [tiny_len]
pub fn windows_main(a: &[String]) -> i32 {
  let max_len: usize = a.first().and_then(|s| s.parse().ok()).unwrap_or(3);
  let shard: u64 = a.get(1).and_then(|s| s.parse().ok()).unwrap_or(0);
  let nshards: u64 = a.get(2).and_then(|s| s.parse().ok()).unwrap_or(1);
  let reduced_len: usize = a.get(3).and_then(|s| s.parse().ok()).unwrap_or(0);
  std::panic::set_hook(Box::new(|_| {}));
  let alpha = alphabet();
  let mut t = Tally { windows: 0, rewritten: 0, skipped: 0, bad: vec![], bad_count: 0, samples: vec![] };
  for len in 1..=max_len {
    explore_len(&alpha, len, shard, nshards, &mut t);
  }
  if reduced_len > max_len {
    // longer windows over the core alphabet (first 32 symbols)
    for len in (max_len + 1)..=reduced_len {
      explore_len(&alpha[..24], len, shard, nshards, &mut t);
    }
  }
  // still longer windows over a tiny core: one representative of every rule's trigger plus a jump, its label and a return
  let tiny_len: usize = a.get(4).and_then(|s| s.parse().ok()).unwrap_or(0);
  if tiny_len > reduced_len.max(max_len) {
    let core: Vec<S> = [0usize, 1, 2, 4, 6, 7, 8, 10, 17, 18, 20, 30, 22].iter().map(|i| alpha[*i]).collect();
    for len in (reduced_len.max(max_len) + 1)..=tiny_len {
      explore_len(&core, len, shard, nshards, &mut t);
    }
  }
  if shard == 0 {
    drop_family(&mut t);
  }
  println!(
    "{}",
    json!({"windows": t.windows, "rewritten": t.rewritten, "skipped_by_invariant": t.skipped, "bad_count": t.bad_count,
           "bad": t.bad, "samples": t.samples, "alphabet": alpha.len()})
  );
  0
}
