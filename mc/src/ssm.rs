//! placeholder, replaced by the symbolic stack machine
use serde_json::Value as J;
use laythe_vm::verif::PeepholeRecord;
pub fn check_records(_recs: &[PeepholeRecord]) -> J { J::Null }
pub fn windows_cmd(_c: &J) -> J { J::Null }
pub fn windows_main(_a: &[String]) -> i32 { 0 }
