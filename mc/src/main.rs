//! lvrun: in-process driver for the real Laythe pipeline with harness owned Io.
//!
//! `lvrun serve` reads one JSON case per line on stdin and answers with one JSON
//! observation per line on stdout. A host panic is reported and then the process
//! exits (status 4) so no state can leak into the next case; a hang is reported
//! by the watchdog thread (status 3); a signal kills the process and the parent
//! attributes it to the case in flight.

mod valloc;
mod ssm;
mod net;

use laythe_env::{
  env::{Env, EnvImpl},
  fs::{Fs, FsImpl, LyDirEntry},
  io::{Io, IoImpl},
  stdio::{Stdio, StdioImpl},
};
use laythe_vm::{verif, vm::Vm, vm::VmExit};
use serde_json::{json, Value as J};
use std::{
  cell::RefCell,
  collections::HashMap,
  io::{self, BufRead, Read, Write},
  path::{Path, PathBuf},
  sync::{
    atomic::{AtomicU64, Ordering},
    Arc, Mutex,
  },
  time::{Duration, Instant},
};
use termcolor::WriteColor;

#[global_allocator]
static GLOBAL: valloc::VAlloc = valloc::VAlloc;

// ---------------------------------------------------------------- io mocks

#[derive(Default, Debug)]
struct Bufs {
  out: Vec<u8>,
  err: Vec<u8>,
}

#[derive(Debug, Clone)]
struct Cap(Arc<Mutex<Bufs>>);

struct W(Arc<Mutex<Bufs>>, bool, bool);

const GC_MARK_NURSERY: &[u8] = b"@@gc nursery";
const GC_MARK_FULL: &[u8] = b"@@gc full";

impl Write for W {
  fn write(&mut self, b: &[u8]) -> io::Result<usize> {
    if !self.1 {
      // program level collection markers: not part of the output
      if self.2 && b == b"\n" {
        self.2 = false;
        return Ok(b.len());
      }
      self.2 = false;
      let t = if b.ends_with(b"\n") { &b[..b.len() - 1] } else { b };
      if t == GC_MARK_FULL || t == GC_MARK_NURSERY {
        laythe_core::verif::force_next(if t == GC_MARK_FULL { 2 } else { 1 });
        self.2 = t.len() == b.len();
        return Ok(b.len());
      }
    }
    let mut g = self.0.lock().unwrap();
    let buf = if self.1 { &mut g.err } else { &mut g.out };
    if buf.len() < (8 << 20) {
      buf.extend_from_slice(b);
    }
    Ok(b.len())
  }

  fn flush(&mut self) -> io::Result<()> {
    Ok(())
  }
}

impl WriteColor for W {
  fn supports_color(&self) -> bool {
    false
  }
  fn set_color(&mut self, _: &termcolor::ColorSpec) -> io::Result<()> {
    Ok(())
  }
  fn reset(&mut self) -> io::Result<()> {
    Ok(())
  }
}

thread_local! {
  static LINES: RefCell<Vec<String>> = const { RefCell::new(Vec::new()) };
}

struct S {
  o: W,
  e: W,
  i: io::Empty,
}

impl StdioImpl for S {
  fn stdout(&mut self) -> &mut dyn Write {
    &mut self.o
  }
  fn stderr(&mut self) -> &mut dyn Write {
    &mut self.e
  }
  fn stderr_color(&mut self) -> &mut dyn WriteColor {
    &mut self.e
  }
  fn stdin(&mut self) -> &mut dyn Read {
    &mut self.i
  }
  fn read_line(&self, b: &mut String) -> io::Result<usize> {
    LINES.with(|l| {
      let mut l = l.borrow_mut();
      if l.is_empty() {
        Ok(0)
      } else {
        let x = l.remove(0);
        b.push_str(&x);
        Ok(x.len())
      }
    })
  }
}

impl IoImpl<Stdio> for Cap {
  fn make(&self) -> Stdio {
    Stdio::new(Box::new(S {
      o: W(self.0.clone(), false, false),
      e: W(self.0.clone(), true, false),
      i: io::empty(),
    }))
  }
}

#[derive(Debug, Clone)]
struct MemFs(Arc<HashMap<PathBuf, String>>);
struct MemFsI(Arc<HashMap<PathBuf, String>>);

impl FsImpl for MemFsI {
  fn write_file(&self, _: &Path, _: &str) -> io::Result<()> {
    Ok(())
  }
  fn read_file(&self, p: &Path) -> io::Result<String> {
    self
      .0
      .get(p)
      .cloned()
      .ok_or_else(|| io::Error::new(io::ErrorKind::NotFound, "not found"))
  }
  fn remove_file(&self, _: &Path) -> io::Result<()> {
    Ok(())
  }
  fn read_directory(&self, _: &Path) -> io::Result<Vec<Box<dyn LyDirEntry>>> {
    Ok(vec![])
  }
  fn canonicalize(&self, p: &Path) -> io::Result<PathBuf> {
    Ok(p.to_path_buf())
  }
  fn relative_path(&self, base: &Path, import: &Path) -> io::Result<PathBuf> {
    import
      .strip_prefix(base)
      .map(|p| p.to_path_buf())
      .map_err(|e| io::Error::new(io::ErrorKind::InvalidInput, e.to_string()))
  }
}

impl IoImpl<Fs> for MemFs {
  fn make(&self) -> Fs {
    Fs::new(Box::new(MemFsI(self.0.clone())))
  }
}

#[derive(Debug)]
struct E;
struct EI;

impl EnvImpl for EI {
  fn current_dir(&self) -> io::Result<PathBuf> {
    Ok(PathBuf::from("/v"))
  }
  fn args(&self) -> Vec<String> {
    vec![]
  }
}

impl IoImpl<Env> for E {
  fn make(&self) -> Env {
    Env::new(Box::new(EI))
  }
}

// ---------------------------------------------------------------- panic capture

thread_local! {
  static LAST_PANIC: RefCell<String> = const { RefCell::new(String::new()) };
}

fn install_panic_hook() {
  std::panic::set_hook(Box::new(|info| {
    let loc = info
      .location()
      .map(|l| format!("{}:{}", l.file(), l.line()))
      .unwrap_or_default();
    let msg = if let Some(s) = info.payload().downcast_ref::<&str>() {
      s.to_string()
    } else if let Some(s) = info.payload().downcast_ref::<String>() {
      s.clone()
    } else {
      String::from("?")
    };
    if std::env::var("VERIF_BT").is_ok() {
      eprintln!("PANIC {loc}: {msg}\n{}", std::backtrace::Backtrace::force_capture());
    }
    LAST_PANIC.with(|p| {
      let mut p = p.borrow_mut();
      if p.is_empty() {
        *p = format!("{loc}: {msg}");
      }
    });
  }));
}

fn liveness_oracle(addr: *const u8) -> bool {
  !valloc::is_quarantined(addr as usize)
}

// ---------------------------------------------------------------- one case

fn gstr<'a>(c: &'a J, k: &str) -> Option<&'a str> {
  c.get(k).and_then(|v| v.as_str())
}
fn gbool(c: &J, k: &str) -> bool {
  c.get(k).and_then(|v| v.as_bool()).unwrap_or(false)
}
fn gu64(c: &J, k: &str) -> u64 {
  c.get(k).and_then(|v| v.as_u64()).unwrap_or(0)
}

fn run_case(c: &J) -> (J, bool) {
  let mut files: HashMap<PathBuf, String> = HashMap::new();
  if let Some(fs) = c.get("files").and_then(|f| f.as_object()) {
    for (k, v) in fs {
      files.insert(PathBuf::from(k), v.as_str().unwrap_or("").to_string());
    }
  }
  let entry = gstr(c, "entry").unwrap_or("/v/main.lay").to_string();
  let src = if let Some(s) = gstr(c, "src") {
    s.to_string()
  } else {
    files.get(&PathBuf::from(&entry)).cloned().unwrap_or_default()
  };
  let repl: Option<Vec<String>> = c.get("repl").and_then(|r| r.as_array()).map(|a| {
    a.iter()
      .map(|l| {
        let mut s = l.as_str().unwrap_or("").to_string();
        if !s.ends_with('\n') {
          s.push('\n');
        }
        s
      })
      .collect()
  });

  // ---- configure hooks
  verif::reset();
  LAST_PANIC.with(|p| p.borrow_mut().clear());
  valloc::release_quarantine();
  valloc::reset_case_counters();

  let gc = c.get("gc");
  let mode = gc.and_then(|g| gstr(g, "mode")).unwrap_or("natural");
  let kind = gc.map(|g| gu64(g, "kind")).unwrap_or(0) as u8;
  let mut points: Vec<(u64, u8)> = vec![];
  if let Some(ps) = gc.and_then(|g| g.get("points")).and_then(|p| p.as_array()) {
    for p in ps {
      if let Some(a) = p.as_array() {
        points.push((a[0].as_u64().unwrap_or(0), a.get(1).and_then(|k| k.as_u64()).unwrap_or(0) as u8));
      } else if let Some(n) = p.as_u64() {
        points.push((n, kind));
      }
    }
  }
  let gmode = match mode {
    "never" => verif::core::GcMode::Never,
    "every" => verif::core::GcMode::Every,
    "at" => verif::core::GcMode::At,
    "period" => verif::core::GcMode::Period(gc.map(|g| gu64(g, "period")).unwrap_or(1)),
    _ => verif::core::GcMode::Natural,
  };
  // std-lib creation cannot collect (no root context); the plan starts counting after it
  verif::core::set_gc_plan(verif::core::GcMode::Never, 0, &[]);
  verif::set_cache_bypass(gbool(c, "cache_off"));
  verif::set_rule_mask(gu64(c, "mask") as u32);
  verif::set_compile_only(gbool(c, "compile_only"));
  verif::set_record_compiled(gbool(c, "dump"));
  verif::set_record_peephole(gbool(c, "peephole"));
  verif::set_trace(gbool(c, "trace"), gu64(c, "step_limit"));

  let alloc_mode = match gstr(c, "alloc").unwrap_or("system") {
    "poison" => 1,
    "quarantine" => 2,
    "reuse_lifo" => 3,
    "reuse_fifo" => 4,
    _ => 0,
  };
  if alloc_mode == 1 || alloc_mode == 2 {
    verif::core::set_liveness_oracle(Some(liveness_oracle));
  } else {
    verif::core::set_liveness_oracle(None);
  }
  let want_stats = gbool(c, "stats");
  let final_collect = gbool(c, "final_collect");

  let cap = Cap(Arc::new(Mutex::new(Bufs::default())));
  let io = Io::default()
    .with_stdio(Arc::new(cap.clone()))
    .with_fs(Arc::new(MemFs(Arc::new(files))))
    .with_env(Arc::new(E));

  if let Some(lines) = &repl {
    LINES.with(|l| *l.borrow_mut() = lines.clone());
  }

  let before = valloc::counters();
  let t0 = Instant::now();
  let mut stats = J::Null;
  let result = std::panic::catch_unwind(std::panic::AssertUnwindSafe(|| {
    let mut vm = Vm::new(io);
    // hooks count from here: allocation points of std lib creation are excluded
    let base_allocs = verif::core::alloc_points();
    let shifted: Vec<(u64, u8)> = points.iter().map(|(p, k)| (p + base_allocs, *k)).collect();
    verif::core::set_gc_plan(gmode, kind, &shifted);
    valloc::set_mode(alloc_mode);
    let r = if repl.is_some() {
      vm.repl()
    } else {
      vm.run(PathBuf::from(&entry), &src)
    };
    let allocs = verif::core::alloc_points() - base_allocs;
    if final_collect || want_stats {
      // a guaranteed full collection, then compare the runtime's books with ours
      verif::core::set_gc_plan(verif::core::GcMode::Never, 0, &[]);
      if final_collect {
        vm.verif_collect(2);
      }
      if want_stats {
        stats = heap_stats(&vm);
      }
    }
    valloc::set_mode(if alloc_mode != 0 { alloc_mode } else { 0 });
    drop(vm);
    valloc::set_mode(0);
    (r, allocs, base_allocs)
  }));
  valloc::set_mode(0);
  let wall = t0.elapsed().as_secs_f64();
  let after = valloc::counters();

  let g = cap.0.lock().unwrap();
  let out = String::from_utf8_lossy(&g.out).into_owned();
  let err = String::from_utf8_lossy(&g.err).into_owned();
  drop(g);

  let mut res = json!({
    "id": c.get("id").cloned().unwrap_or(J::Null),
    "out": out,
    "err": err,
    "collections": verif::core::collections(),
    "collections_tmp": verif::core::collections_with_temp_roots(),
    "header_checks": verif::core::header_checks(),
    "steps": verif::step_count(),
    "mismatch": after.mismatch,
    "bad_free": after.bad_free,
    "releases": after.releases,
    "quarantined": after.quarantined,
    "reused": after.reused,
    "q_overflow": after.overflow,
    "wall": wall,
  });
  if after.mismatch > 0 {
    res["first_mismatch"] = json!(after.first_mismatch.to_vec());
  }
  let panicked;
  match result {
    Ok(((code, exit), allocs, base)) => {
      panicked = false;
      let class = match exit {
        VmExit::Ok => "ok",
        VmExit::CompileError => "compile_error",
        VmExit::RuntimeError => {
          if res["err"].as_str().unwrap_or("").contains("Fatal error deadlock.") {
            "deadlock"
          } else {
            "runtime_error"
          }
        },
      };
      res["class"] = json!(class);
      res["code"] = json!(code);
      res["allocs"] = json!(allocs);
      res["base_allocs"] = json!(base);
      res["leak_bytes"] = json!(after.live_bytes - before.live_bytes);
      res["leak_blocks"] = json!(after.live_blocks - before.live_blocks);
    },
    Err(_) => {
      panicked = true;
      let msg = LAST_PANIC.with(|p| p.borrow().clone());
      res["class"] = json!(if msg.contains("VERIF-STEP-LIMIT") { "step_limit" } else { "panic" });
      res["code"] = json!(-99);
      res["panic"] = json!(msg);
      res["allocs"] = json!(verif::core::alloc_points());
    },
  }
  if want_stats {
    res["stats"] = stats;
  }
  if gbool(c, "dump") {
    res["dump"] = json!(verif::take_compiled());
    res["ops"] = json!(verif::op_names());
  }
  if gbool(c, "trace") {
    let steps: Vec<J> = verif::take_steps()
      .into_iter()
      .map(|(f, pc, d, h)| json!([f, pc, d, h]))
      .collect();
    res["trace"] = J::Array(steps);
  }
  if gbool(c, "peephole") {
    let recs = verif::take_peephole();
    res["peephole"] = ssm::check_records(&recs);
  }
  (res, panicked)
}

fn heap_stats(vm: &Vm) -> J {
  let s = vm.verif_heap_stats();
  let blocks = vm.verif_heap_blocks();
  let intern = vm.verif_intern();
  let mut sum_reported: usize = 0;
  let mut sum_actual: usize = 0;
  let mut unknown = 0usize;
  let mut size_diff = 0usize;
  let mut first_diff = J::Null;
  let mut strings: Vec<usize> = vec![];
  let mut by_kind: HashMap<u8, (usize, usize)> = HashMap::new();
  for b in &blocks {
    sum_reported += b.size;
    let e = by_kind.entry(b.kind).or_insert((0, 0));
    e.0 += 1;
    e.1 += b.size;
    match valloc::recorded_size(b.addr) {
      Some((size, _)) => {
        sum_actual += size;
        if size != b.size {
          size_diff += 1;
          if first_diff.is_null() {
            first_diff = json!({"kind": b.kind, "reported": b.size, "actual": size});
          }
        }
      },
      None => unknown += 1,
    }
    if b.kind == laythe_core::object::ObjectKind::String as u8 {
      strings.push(b.addr);
    }
  }
  strings.sort_unstable();
  let mut interned: Vec<usize> = intern.iter().map(|e| e.obj_addr).collect();
  interned.sort_unstable();
  let key_inside = intern
    .iter()
    .filter(|e| {
      // the key's bytes must live inside the block of the string it maps to
      match valloc::recorded_size(e.obj_addr) {
        Some((size, _)) => e.key_addr >= e.obj_addr && e.key_addr + e.key_len <= e.obj_addr + size,
        None => false,
      }
    })
    .count();
  let mut kinds: Vec<J> = by_kind
    .iter()
    .map(|(k, (n, sz))| json!([k, n, sz]))
    .collect();
  kinds.sort_by_key(|k| k[0].as_u64());
  json!({
    "bytes_allocated": s.bytes_allocated,
    "next_gc": s.next_gc,
    "gc_count": s.gc_count as u64,
    "heap": s.heap,
    "obj_heap": s.obj_heap,
    "nursery": s.nursery,
    "temp_roots": s.temp_roots,
    "blocks": blocks.len(),
    "sum_reported": sum_reported,
    "sum_actual": sum_actual,
    "unknown_blocks": unknown,
    "size_diff_blocks": size_diff,
    "first_size_diff": first_diff,
    "strings": strings.len(),
    "intern": interned.len(),
    "intern_equals_strings": strings == interned,
    "intern_keys_inside_block": key_inside,
    "kinds": kinds,
    "live_bytes": valloc::counters().live_bytes,
  })
}

// ---------------------------------------------------------------- serve loop

static CASE_START_MS: AtomicU64 = AtomicU64::new(0);
static CASE_SEQ: AtomicU64 = AtomicU64::new(0);

fn now_ms(t0: &Instant) -> u64 {
  t0.elapsed().as_millis() as u64 + 1
}

fn serve(horizon_ms: u64) {
  install_panic_hook();
  let t0 = Instant::now();
  let stdout_lock = Arc::new(Mutex::new(()));
  let current_id: Arc<Mutex<J>> = Arc::new(Mutex::new(J::Null));

  // watchdog
  {
    let stdout_lock = stdout_lock.clone();
    let current_id = current_id.clone();
    std::thread::spawn(move || loop {
      std::thread::sleep(Duration::from_millis(25));
      let start = CASE_START_MS.load(Ordering::SeqCst);
      if start != 0 && now_ms(&t0) > start + horizon_ms {
        let _g = stdout_lock.lock();
        let id = current_id.lock().map(|g| g.clone()).unwrap_or(J::Null);
        let line = json!({"id": id, "class": "timeout", "code": -98, "out": "", "err": ""});
        let so = io::stdout();
        let mut so = so.lock();
        let _ = writeln!(so, "{line}");
        let _ = so.flush();
        unsafe { libc::_exit(3) };
      }
    });
  }

  let worker = std::thread::Builder::new()
    .stack_size(8 << 20)
    .spawn(move || {
      let stdin = io::stdin();
      let mut line = String::new();
      loop {
        line.clear();
        match stdin.lock().read_line(&mut line) {
          Ok(0) | Err(_) => break,
          Ok(_) => {},
        }
        if line.trim().is_empty() {
          continue;
        }
        let case: J = match serde_json::from_str(&line) {
          Ok(c) => c,
          Err(e) => {
            let _g = stdout_lock.lock();
            println!("{}", json!({"id": J::Null, "class": "bad_case", "err": e.to_string()}));
            continue;
          },
        };
        *current_id.lock().unwrap() = case.get("id").cloned().unwrap_or(J::Null);
        CASE_SEQ.fetch_add(1, Ordering::SeqCst);
        let h = gu64(&case, "horizon_ms");
        let _ = h;
        CASE_START_MS.store(now_ms(&t0), Ordering::SeqCst);
        let cmd = case.get("cmd").and_then(|c| c.as_str()).unwrap_or("");
        let (res, panicked) = if cmd == "windows" {
          (ssm::windows_cmd(&case), false)
        } else if cmd == "netmodel" {
          (net::model_stats(&case), false)
        } else if cmd == "net" {
          match net::parse(&case) {
            Some((n, wrap)) => {
              let mut c2 = case.clone();
              let heap = case.get("heap").and_then(|v| v.as_bool()).unwrap_or(false);
              c2["src"] = json!(n.program_mode(wrap, heap));
              let (mut res, panicked) = run_case(&c2);
              net::finish(&n, &mut res);
              (res, panicked)
            },
            None => (json!({"class": "bad_case", "err": "bad net"}), false),
          }
        } else {
          run_case(&case)
        };
        CASE_START_MS.store(0, Ordering::SeqCst);
        {
          let _g = stdout_lock.lock();
          let so = io::stdout();
          let mut so = so.lock();
          let _ = writeln!(so, "{res}");
          let _ = so.flush();
        }
        if panicked {
          unsafe { libc::_exit(4) };
        }
      }
    })
    .unwrap();
  let _ = worker.join();
}

fn main() {
  let args: Vec<String> = std::env::args().collect();
  match args.get(1).map(|s| s.as_str()) {
    Some("serve") => {
      let horizon = args.get(2).and_then(|s| s.parse().ok()).unwrap_or(5000);
      serve(horizon);
    },
    Some("ops") => {
      println!("{}", json!(verif::op_names()));
    },
    Some("windows") => {
      std::process::exit(ssm::windows_main(&args[2..]));
    },
    _ => {
      eprintln!("usage: lvrun serve [horizon_ms] | ops | windows ...");
      std::process::exit(2);
    },
  }
}
