#!/bin/bash
# Runs the repository's pinned test suite with the verification feature OFF and
# prints "passed failed" plus the names of failing tests.
cd /repo
out=$(timeout 1500 cargo test --workspace --no-fail-fast --offline 2>&1)
echo "$out" | grep -E "^test result" | awk '{p+=$4; f+=$6} END {print "passed=" p " failed=" f}'
echo "$out" | grep -E "^test .* FAILED$" | sort
