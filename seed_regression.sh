#!/bin/bash
# Re-runs the detection of every kept seeded change against /repo: apply seeded/<id>/patch.diff, run the quick tier of the
# checks listed in its meta.json (caught_by), revert. Writes seeded/REGRESSION.txt. A seed counts as detected when every
# listed check exits 1 with a VIOLATION line. /repo must be clean; it is left clean and the harness is rebuilt at the end.
cd "$(dirname "$0")"
out=seeded/REGRESSION.txt
echo "seed regression on /repo $(git -C /repo log --format=%h -1), /verif $(git log --format=%h -1), $(date -u +%FT%TZ)" > $out
[ -n "$(git -C /repo status --porcelain)" ] && { echo "/repo not clean"; exit 2; }
for d in seeded/S*/; do
  id=$(basename $d)
  [ -n "$1" ] && [[ "$id" != $1* ]] && continue
  checks=$(python3 -c "import json;print(' '.join(json.load(open('$d/meta.json'))['caught_by']))")
  if ! git -C /repo apply "$PWD/$d/patch.diff" 2>/dev/null; then
    if ! git -C /repo apply -3 "$PWD/$d/patch.diff" 2>/dev/null; then echo "$id: patch does not apply any more" | tee -a $out; git -C /repo checkout -- .; continue; fi
  fi
  line="$id:"
  for c in $checks; do
    o=$(timeout 1800 ./vc $c quick 2>&1); rc=$?
    n=$(echo "$o" | grep -c "^VIOLATION")
    line="$line $c=exit$rc/violations$n"
  done
  git -C /repo checkout -- . ; git -C /repo reset -q
  echo "$line" | tee -a $out
done
./vc build all >/dev/null 2>&1
echo "done" >> $out
