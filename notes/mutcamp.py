#!/usr/bin/env python3
"""own mutation campaign (meta-evaluation of the checks, not a check): mechanical small changes in the files the properties are anchored in,
each applied to the scratch worktree /tmp/wt/mut and run through the quick tier of the lab copy /tmp/wt/vmut until a check reports it."""
import re, os, subprocess, sys, json, hashlib, time
WT = "/tmp/wt/mut"; LAB = "/tmp/wt/vmut"
FILES = {
 "laythe_vm/src/vm/ops.rs": ["C01","C04","C03","C13","C07","C18","C16","C02","C11","C12","C06"],
 "laythe_vm/src/fiber/mod.rs": ["C04","C18","C08","C07","C06","C16","C05"],
 "laythe_vm/src/compiler/mod.rs": ["C01","C02","C03","C04","C06","C12","C18","C13","C17"],
 "laythe_vm/src/compiler/peephole.rs": ["C12","C06","C01","C04","C02","C18"],
 "laythe_vm/src/compiler/resolver.rs": ["C02","C01","C15","C19","C03","C17"],
 "laythe_vm/src/compiler/scanner.rs": ["C15","C01","C18","C09"],
 "laythe_vm/src/compiler/parser.rs": ["C15","C01","C03","C04"],
 "laythe_vm/src/cache.rs": ["C13","C19","C03"],
 "laythe_vm/src/vm/source_loader.rs": ["C17","C19","C15"],
 "laythe_core/src/allocator.rs": ["C05","C20","C09","C10","C13"],
 "laythe_core/src/object/channel/channel_queue.rs": ["C07","C08","C05"],
 "laythe_core/src/object/channel/mod.rs": ["C07","C08","C05"],
 "laythe_core/src/object/map.rs": ["C10","C11","C14","C05"],
 "laythe_core/src/object/list.rs": ["C10","C11","C05"],
 "laythe_core/src/object/class.rs": ["C03","C05","C13","C09"],
 "laythe_core/src/object/ly_str.rs": ["C09","C11","C05","C20"],
 "laythe_core/src/value.rs": ["C14","C10","C01","C11"],
 "laythe_core/src/module/mod.rs": ["C17","C19","C05"],
 "laythe_lib/src/global/primitives/list.rs": ["C11","C10","C16"],
 "laythe_lib/src/global/primitives/iter.rs": ["C11","C16","C05"],
 "laythe_lib/src/global/primitives/string.rs": ["C11","C09","C16"],
 "laythe_lib/src/global/primitives/map.rs": ["C11","C10","C16"],
}
ALL = ["C%02d" % i for i in range(1, 21) if i != 8] + ["C08"]
OPS = [
 (re.compile(r"(?<![<>=!\-])<=(?!=)"), "<"), (re.compile(r"(?<![<>=!\-&])>=(?!=)"), ">"),
 (re.compile(r"(?<=[\w\)\]] )<(?= [\w\(])"), "<="), (re.compile(r"(?<=[\w\)\]] )>(?= [\w\(])"), ">="),
 (re.compile(r"(?<![=!<>])==(?!=)"), "!="), (re.compile(r"!=(?!=)"), "=="),
 (re.compile(r" \+ 1\b"), ""), (re.compile(r" - 1\b"), ""), (re.compile(r"&&"), "||"), (re.compile(r"\|\|"), "&&"),
 (re.compile(r"\btrue\b"), "false"), (re.compile(r"\bfalse\b"), "true"),
]
DEL = re.compile(r"^\s*(self\.|hooks\.|fiber\.|[a-z_]+\.)[\w\.]*(trace|drop|pop_roots|push_root|clear|truncate|pop_exception_handler|scan_roots|copy_cursors|drain)\w*\(.*\);\s*$")

def candidates():
    out = []
    for f in FILES:
        p = os.path.join(WT, f)
        if not os.path.exists(p):
            continue
        lines = open(p).read().split("\n")
        in_test = False
        for i, l in enumerate(lines):
            if re.match(r"^(pub )?mod tests?\b", l):
                break
            s = l.strip()
            if s.startswith("//") or s.startswith("#") or "verif" in l or "assert" in l or "debug" in l:
                continue
            for k, (rx, rep) in enumerate(OPS):
                for m in rx.finditer(l):
                    if l[:m.start()].count('"') % 2 == 1:
                        continue
                    out.append((f, i, "op%d@%d" % (k, m.start()), l[:m.start()] + rep + l[m.end():]))
            if DEL.match(l):
                out.append((f, i, "del", l[:len(l) - len(l.lstrip())] + "// " + s))
    return out

def sh(cmd, cwd, timeout):
    try:
        p = subprocess.run(cmd, cwd=cwd, shell=True, stdout=subprocess.PIPE, stderr=subprocess.STDOUT, timeout=timeout)
        return p.returncode, p.stdout.decode("utf8", "replace")
    except subprocess.TimeoutExpired:
        return 124, "timeout"

def main():
    n_target = int(sys.argv[1]) if len(sys.argv) > 1 else 40
    offset = int(sys.argv[2]) if len(sys.argv) > 2 else 0
    cands = candidates()
    cands.sort(key=lambda c: hashlib.sha1(("%s:%d:%s" % c[:3]).encode()).hexdigest())
    log = open("/tmp/wt/muts/campaign.jsonl", "a")
    done = 0
    for f, i, kind, newline in cands[offset:]:
        if done >= n_target:
            break
        sh("git checkout -q -- .", WT, 60)
        p = os.path.join(WT, f)
        lines = open(p).read().split("\n")
        old = lines[i]
        lines[i] = newline
        open(p, "w").write("\n".join(lines))
        rec = {"file": f, "line": i + 1, "kind": kind, "old": old.strip(), "new": newline.strip(), "t": time.time()}
        rc, out = sh("./vc build checked", LAB, 1500)
        if rc != 0:
            rec["result"] = "does_not_compile"
            log.write(json.dumps(rec) + "\n"); log.flush()
            continue
        order = FILES[f] + [c for c in ALL if c not in FILES[f]]
        rec["ran"] = []
        rec["caught_by"] = None
        for c in order:
            rc, out = sh("./vc %s quick" % c, LAB, 1500)
            rec["ran"].append([c, rc])
            if rc == 1 and "VIOLATION" in out:
                rec["caught_by"] = c
                m = re.search(r"^  reason: (.*)$", out, re.M)
                rec["reason"] = (m.group(1) if m else "")[:300]
                break
        rec["result"] = "caught" if rec["caught_by"] else "survived"
        rec["wall"] = round(time.time() - rec["t"])
        log.write(json.dumps(rec) + "\n"); log.flush()
        done += 1
    sh("git checkout -q -- .", WT, 60)

main()
