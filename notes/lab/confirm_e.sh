#!/bin/bash
# confirm one seed: suite with the change; every demo with and without the change. usage: confirm_e.sh <name> [cargo build flags]
n=$1; shift; flags="$@"
cd /tmp/wt/$n || exit 1
echo "######## $n"
echo "== tests with change"; timeout 2400 cargo test --workspace --no-fail-fast --offline 2>&1 | grep -E "^test .* FAILED$|^test result" | awk '/FAILED$/{print} /^test result/{p+=$4; f+=$6} END{print "passed="p" failed="f}'
timeout 900 cargo build --offline -p laythe $flags 2>&1 | tail -1
rundemos() { for d in _seed/*.lay; do case $d in *control*|*helper*) continue;; esac; echo "-- $d"; timeout 120 ./target/debug/laythe $d 2>&1 | tail -14 | cut -c1-200; done; }
echo "== demos WITH change"; rundemos
git diff > /tmp/confirm_$n.diff && git apply -R /tmp/confirm_$n.diff
timeout 900 cargo build --offline -p laythe $flags 2>&1 | tail -1
echo "== demos WITHOUT change"; rundemos
git apply /tmp/confirm_$n.diff
git status --short | head -5
