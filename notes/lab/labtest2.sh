#!/bin/bash
# labtest.sh <patch> <ID>... : apply patch to scratch worktree /tmp/wt/mut, run quick checks from the lab copy, revert
patch=$(realpath "$1"); shift
cd /tmp/wt/mut2 && git checkout -q -- . && git apply "$patch" || { echo "patch does not apply"; exit 1; }
cd /tmp/wt/vmut2
for c in "$@"; do
  out=$(timeout 1500 ./vc $c quick 2>&1); rc=$?
  echo "$c rc=$rc :: $(echo "$out" | grep -E "^$c quick:" | tail -1 | cut -c1-200)"
  echo "$out" | grep -E "^VIOLATION|^MACHINERY" | head -2
  echo "$out" | grep -E "^  reason" | head -1 | cut -c1-300
done
cd /tmp/wt/mut2 && git checkout -q -- .
