#!/bin/bash
# confirm a seeded change myself: suite unchanged, demo differs with/without
n=$1; demo=${2:-demo.lay}
cd /tmp/wt/$n || exit 1
echo "== tests with change"; timeout 1500 cargo test --workspace --no-fail-fast --offline 2>&1 | grep -E "^test .* FAILED$|^test result" | awk '/FAILED$/{print} /^test result/{p+=$4; f+=$6} END{print "passed="p" failed="f}'
timeout 600 cargo build --offline -p laythe 2>&1 | tail -1
echo "== demo WITH change"; timeout 120 ./target/debug/laythe _seed/$demo 2>&1 | head -20; echo "rc=$?"
git diff > /tmp/confirm_$n.diff && git apply -R /tmp/confirm_$n.diff
timeout 600 cargo build --offline -p laythe 2>&1 | tail -1
echo "== demo WITHOUT change"; timeout 120 ./target/debug/laythe _seed/$demo 2>&1 | head -20; echo "rc=$?"
git apply /tmp/confirm_$n.diff
git status --short | head -5
