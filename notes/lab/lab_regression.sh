#!/bin/bash
# the seed regression of /verif/seed_regression.sh, run against the scratch worktree /tmp/wt/mut with the scratch copy /tmp/wt/vmut (early warning only)
out=/tmp/wt/lab_regression.txt
echo "seed regression on a scratch worktree of /repo at $(git -C /tmp/wt/mut log --format=%h -1) (= /repo HEAD $(git -C /repo log --format=%h -1)) with a scratch copy of /verif $(git -C /verif log --format=%h -1), $(date -u +%FT%TZ)" > $out
for d in /verif/seeded/S*/; do
  id=$(basename $d)
  checks=$(python3 -c "import json;print(' '.join(json.load(open('$d/meta.json'))['caught_by']))")
  cd /tmp/wt/mut && git checkout -q -- .
  if ! git apply "$d/patch.diff" 2>/dev/null; then
    if ! git apply -3 "$d/patch.diff" 2>/dev/null; then echo "$id: patch does not apply any more" >> $out; git checkout -q -- . ; git reset -q; continue; fi
  fi
  line="$id:"
  cd /tmp/wt/vmut
  for c in $checks; do
    o=$(timeout 1800 ./vc $c quick 2>&1); rc=$?
    n=$(echo "$o" | grep -c "^VIOLATION")
    line="$line $c=exit$rc/violations$n"
  done
  cd /tmp/wt/mut && git checkout -q -- . ; git reset -q
  echo "$line" >> $out
done
echo done >> $out
