#!/bin/bash
# scratch copy of /verif that checks the scratch worktree /tmp/wt/mut instead of /repo (never registered, never committed)
set -e
mkdir -p /tmp/wt/vmut2
rsync -a --delete --exclude target --exclude replays --exclude .git --exclude evidence /verif/ /tmp/wt/vmut2/
mkdir -p /tmp/wt/vmut2/evidence /tmp/wt/vmut2/replays
cd /tmp/wt/vmut2
sed -i 's#/repo/#/tmp/wt/mut2/#g' checks/c16.py checks/c15.py vlib/corpus.py mc/Cargo.toml
sed -i 's#"/repo/laythe_lib/src"#"/tmp/wt/mut2/laythe_lib/src"#' checks/c16.py
sed -i 's#/verif/target#/tmp/wt/vmut2_target#' mc/.cargo/config.toml
grep -rn "/verif/target\|verif/target" vc vlib/*.py | head
