use laythe_vm::verif::{Label, SymbolicByteCode as S, verif_peephole};
use std::collections::HashMap;

/// one basic-block run of the abstract stack machine over a term algebra
#[derive(Debug, PartialEq, Eq, Clone)]
struct Run { events: Vec<String>, exit: String }

struct M { stack: Vec<String>, inputs: usize, env: HashMap<String, String>, events: Vec<String>, calls: usize }
impl M {
  fn new() -> Self { M { stack: vec![], inputs: 0, env: HashMap::new(), events: vec![], calls: 0 } }
  fn pop(&mut self) -> String { match self.stack.pop() { Some(t) => t, None => { self.inputs += 1; format!("in{}", self.inputs) } } }
  fn peek(&mut self) -> String { let t = self.pop(); self.stack.push(t.clone()); t }
  fn push(&mut self, t: String) { self.stack.push(t) }
  fn get(&mut self, ns: &str, i: u64) { let k = format!("{ns}{i}"); let v = self.env.get(&k).cloned().unwrap_or(k); self.push(v) }
  fn set(&mut self, ns: &str, i: u64) { let v = self.peek(); let k = format!("{ns}{i}"); self.events.push(format!("store {k} := {v}")); self.env.insert(k, v); }
  fn call(&mut self, callee: String, args: Vec<String>) { self.calls += 1; let t = format!("ret#{}[{}({})]", self.calls, callee, args.join(",")); self.events.push(format!("call {t}")); self.push(t) }
  fn snapshot(&self) -> String { format!("inputs={} stack=[{}]", self.inputs, self.stack.join(" ; ")) }
}

/// run from index `start` until a control transfer, a label, or the end
fn run(code: &[S], start: usize) -> Run {
  let mut m = M::new(); let mut i = start;
  loop {
    if i >= code.len() { return Run { exit: format!("end {}", m.snapshot()), events: m.events } }
    match code[i] {
      S::Label(l) => return Run { exit: format!("into L{} {}", l.val(), m.snapshot()), events: m.events },
      S::Jump(l) => return Run { exit: format!("goto L{} {}", l.val(), m.snapshot()), events: m.events },
      S::Loop(l) => return Run { exit: format!("loop L{} {}", l.val(), m.snapshot()), events: m.events },
      S::Return => { let v = m.pop(); return Run { exit: format!("return {v}"), events: m.events } },
      S::Raise => { let v = m.pop(); return Run { exit: format!("raise {v}"), events: m.events } },
      S::JumpIfFalse(l) => { let c = m.pop(); let s = m.snapshot(); m.events.push(format!("branch !{c} -> L{} {s}", l.val())); },
      S::Drop => { m.pop(); }, S::DropN(n) => { for _ in 0..n { m.pop(); } },
      S::Nil => m.push("nil".into()), S::Dup => { let t = m.peek(); m.push(t) },
      S::Add => { let b = m.pop(); let a = m.pop(); m.push(format!("add({a},{b})")) },
      S::GetLocal(a) => m.get("local", a as u64), S::SetLocal(a) => m.set("local", a as u64),
      S::GetBox(a) => m.get("box", a as u64), S::SetBox(a) => m.set("box", a as u64),
      S::GetCapture(a) => m.get("cap", a as u64), S::SetCapture(a) => m.set("cap", a as u64),
      S::GetModSym(a) => m.get("mod", a as u64), S::SetModSym(a) => m.set("mod", a as u64),
      S::GetPropByName(s) => { let o = m.pop(); m.push(format!("prop({o},{s})")) },
      S::PropertySlot | S::InvokeSlot | S::ArgumentDelimiter => {},
      S::Call(n) => { let mut a = vec![]; for _ in 0..n { a.push(m.pop()); } a.reverse(); let c = m.pop(); m.call(c, a) },
      S::Invoke((s, n)) => { let mut a = vec![]; for _ in 0..n { a.push(m.pop()); } a.reverse(); let o = m.pop(); m.call(format!("prop({o},{s})"), a) },
      S::GetSuper(s) => { let sup = m.pop(); let this = m.pop(); m.push(format!("superprop({this},{sup},{s})")) },
      S::SuperInvoke((s, n)) => { let sup = m.pop(); let mut a = vec![]; for _ in 0..n { a.push(m.pop()); } a.reverse(); let this = m.pop(); m.call(format!("superprop({this},{sup},{s})"), a) },
      ref other => panic!("alphabet does not include {:?}", other),
    }
    i += 1;
  }
}

fn entries(code: &[S]) -> Vec<(String, usize)> {
  let mut e = vec![("entry".to_string(), 0)];
  for (i, ins) in code.iter().enumerate() { if let S::Label(l) = ins { e.push((format!("L{}", l.val()), i + 1)); } }
  e
}

fn main() {
  let l0 = Label::new(0);
  let alpha: Vec<S> = vec![S::Drop, S::GetPropByName(7), S::PropertySlot, S::Call(0), S::Call(1), S::ArgumentDelimiter, S::GetSuper(7), S::SetLocal(1), S::SetLocal(2), S::GetLocal(1), S::GetLocal(2),
    S::SetBox(1), S::GetBox(1), S::GetBox(2), S::SetCapture(1), S::GetCapture(1), S::GetCapture(2), S::SetModSym(1), S::GetModSym(1), S::GetModSym(2), S::Jump(l0), S::Loop(l0), S::Return, S::Raise, S::Nil, S::Add, S::JumpIfFalse(l0), S::Dup, S::Label(l0)];
  let max: usize = std::env::args().nth(1).map(|s| s.parse().unwrap()).unwrap_or(3);
  let restrict = std::env::args().nth(2).is_some();
  let mut windows = 0u64; let mut bad = 0u64; let mut changed = 0u64; let mut shown: HashMap<String, u32> = HashMap::new();
  let n = alpha.len();
  for len in 1..=max {
    let total = (n as u64).pow(len as u32);
    'w: for idx in 0..total {
      let mut x = idx; let mut w = vec![];
      for _ in 0..len { w.push(alpha[(x % n as u64) as usize]); x /= n as u64; }
      // a window may contain the label at most once (labels are unique in real code)
      if w.iter().filter(|i| matches!(i, S::Label(_))).count() > 1 { continue; }
      if restrict {
        // compiler invariant: Call(n>0) is always directly preceded by ArgumentDelimiter
        for k in 0..w.len() { if let S::Call(a) = w[k] { if a > 0 && (k == 0 || w[k - 1] != S::ArgumentDelimiter) { continue 'w; } } }
      }
      windows += 1;
      let lines: Vec<u16> = (0..len as u16).collect();
      let (out, out_lines) = verif_peephole(w.clone(), lines);
      if out != w { changed += 1; }
      if out.len() != out_lines.len() { bad += 1; println!("LINES LENGTH {:?} -> {:?} {:?}", w, out, out_lines); continue; }
      let ein = entries(&w); let eout: HashMap<String, usize> = entries(&out).into_iter().collect();
      for (name, start) in ein {
        let Some(&ostart) = eout.get(&name) else { bad += 1; println!("LABEL LOST {:?} -> {:?}", w, out); continue };
        let a = run(&w, start); let b = run(&out, ostart);
        if a != b {
          bad += 1;
          let key = format!("{:?}", out.iter().zip(w.iter()).find(|(x, y)| x != y).map(|(x, _)| std::mem::discriminant(x)));
          let c = shown.entry(key).or_insert(0); *c += 1;
          if *c <= 2 { println!("MISMATCH from {name}\n  in : {:?}\n  out: {:?}\n  in : {:?}\n  out: {:?}", w, out, a, b); }
        }
      }
    }
  }
  println!("windows={windows} rewritten={changed} mismatches={bad}");
}
