import re, glob, subprocess, collections, itertools, os, sys
from concurrent.futures import ThreadPoolExecutor
root='/repo/laythe_lib/src'
recv = {'bool.rs':'true','channel.rs':'chan(1)','class.rs':'Object','closure.rs':'(|| { let q = 1; || q })()','error.rs':None,'fun.rs':'fnx','iter.rs':'[1,2].iter()','list.rs':'[1,2,3]','map.rs':'({1: 2})','method.rs':'[1].push','native.rs':'print','nil.rs':'nil','number.rs':'5','object.rs':'Object()','string.rs':"'abc'",'tuple.rs':'(1,2)'}
methods=[]
for f in glob.glob(root+'/global/primitives/*.rs'):
    b=os.path.basename(f)
    src=open(f).read()
    for m in re.finditer(r'NativeMetaBuilder::(method|fun)\(\s*("?[\w\[\]=?]+"?|INDEX_GET|INDEX_SET)', src):
        kind,name=m.group(1),m.group(2).strip('"')
        if b in recv and recv[b] and kind=='method' and name not in ('INDEX_GET','INDEX_SET','test',''):
            methods.append((recv[b], name))
statics=['List.collect','Tuple.collect','Number.parse','Number.cmp','print','assert','assertEq','assertNe','clock','Error','ValueError','math.sin','math.cos','math.ln','math.abs','math.max','math.min','math.rem','math.pow','regexp.RegExp','env.args','env.cwd']
args=['nil','true','0','-1','1.5','(0/0)','1e300',"''","'a'","'é'",'[]','[1]','()','({})','(|| 1)','(|a| a)','(|a, b| a)','Object','Object()','chan(1)','[1].iter()','print','[1].push',"Error('e')",'math']
pre="import std.math; import std.regexp; import std.env; fn fnx() { 1 }\n"
progs=[]
def add(callee, tup):
    progs.append(pre+"print('M'); let r = %s(%s); print('done');" % (callee, ', '.join(tup)))
for r,m in sorted(set(methods)):
    for n in (0,1,2):
        for tup in itertools.product(args, repeat=n): add('%s.%s' % (r,m), tup)
for s_ in statics:
    for n in (0,1,2):
        for tup in itertools.product(args, repeat=n): add(s_, tup)
# index get/set on each receiver kind
for r in ["[1,2,3]","(1,2)","'abc'","({1: 2})"]:
    for a in args:
        progs.append(pre+"print('M'); let r = %s[%s]; print('done');" % (r,a))
        for b in args[:12]: progs.append(pre+"print('M'); let r = %s; r[%s] = %s; print('done');" % (r,a,b))
print(len(set(methods)),'methods',len(progs),'programs')
CH=400
chunks=[progs[i:i+CH] for i in range(0,len(progs),CH)]
def runchunk(ci):
    base='chunk%d'%ci
    open(base+'.txt','w').write('\n=====\n'.join(chunks[ci]))
    p=subprocess.run(['timeout','120','/root/scratch/tgt_spike/release/spike',base+'.txt',base+'.out'],capture_output=True,text=True)
    res=[l.rstrip('\n').split('\t')[0] for l in open(base+'.out')] if os.path.exists(base+'.out') else []
    out=[]
    for i,pr in enumerate(chunks[ci]):
        if i<len(res): out.append(res[i])
        elif i==len(res): out.append('CRASH rc=%d %s' % (p.returncode, p.stderr.strip().split('\n')[-1][:80]))
        else: out.append('NOTRUN')
    return out
with ThreadPoolExecutor(16) as ex: results=list(ex.map(runchunk, range(len(chunks))))
flat=[x for r in results for x in r]
# rerun NOTRUN singly in small chunks
notrun=[i for i,x in enumerate(flat) if x=='NOTRUN']
print('notrun after first pass', len(notrun))
while notrun:
    batch=notrun[:CH]; 
    open('re.txt','w').write('\n=====\n'.join(progs[i] for i in batch))
    if os.path.exists('re.out'): os.remove('re.out')
    p=subprocess.run(['timeout','120','/root/scratch/tgt_spike/release/spike','re.txt','re.out'],capture_output=True,text=True)
    res=[l.rstrip('\n').split('\t')[0] for l in open('re.out')] if os.path.exists('re.out') else []
    for j,i in enumerate(batch):
        if j<len(res): flat[i]=res[j]
        elif j==len(res): flat[i]='CRASH rc=%d %s' % (p.returncode, p.stderr.strip().split('\n')[-1][:80])
    done=len(res)+1
    notrun=notrun[done:]
c=collections.Counter(); first={}
for pr,cls in zip(progs,flat):
    k=cls if (cls.startswith('PANIC') or cls.startswith('CRASH')) else cls.split()[0]
    c[k]+=1; first.setdefault(k,pr.split('\n')[-1])
for k,v in c.most_common(): print(v,k,'|',first[k][:110])
