import sys, collections
NOOP = "Return Negate Add Subtract Multiply Divide Not Nil True False Channel BufferedChannel Receive Send Drop Dup EmptyBox FillBox PopHandler FinishUnwind ContinueUnwind GetError Raise Inherit Equal NotEqual Greater GreaterEqual Less LessEqual".split()
U8 = "Constant Launch DropN Box GetBox SetBox GetLocal SetLocal GetCapture SetCapture Call".split()
U16 = "And Or ConstantLong List Tuple Map Interpolate IterNext IterCurrent Import Export LoadGlobal GetModSym SetModSym GetProp SetProp JumpIfFalse Jump Loop CheckHandler Closure Method Field StaticMethod Class GetSuper".split()
U16SLOT = "GetPropByName SetPropByName".split()
U16U16 = "ImportSym DeclareModSym PushHandler".split()
INVOKE = "Invoke SuperInvoke".split()

def u16(code, i): return code[i] | (code[i+1] << 8)
def u32(code, i): return code[i] | (code[i+1] << 8) | (code[i+2] << 16) | (code[i+3] << 24)

class Bad(Exception): pass

def decode(fn, ops):
    code = fn['code']; pc = 0; ins = {}
    while pc < len(code):
        b = code[pc]
        if b >= len(ops): raise Bad('bad opcode %d at %d' % (b, pc))
        name = ops[b]; a = None; n = 1
        if name in NOOP: pass
        elif name in U8: a = code[pc+1]; n = 2
        elif name in U16: a = u16(code, pc+1); n = 3
        elif name in U16SLOT: a = (u16(code, pc+1), u32(code, pc+3)); n = 7
        elif name in U16U16: a = (u16(code, pc+1), u16(code, pc+3)); n = 5
        elif name in INVOKE: a = (u16(code, pc+1), code[pc+3], u32(code, pc+4)); n = 8
        else: raise Bad('unknown op ' + name)
        if name == 'Closure':
            k = fn['consts'][a] if a < len(fn['consts']) else None
            if k is None or not k.startswith('F'): raise Bad('Closure constant %s not a fun at %d' % (a, pc))
            n += 2 * int(k[1:])
        if pc + n > len(code): raise Bad('truncated instruction at %d' % pc)
        ins[pc] = (name, a, n); pc += n
    return ins

def effect(name, a):
    E = {'Negate':0,'Not':0,'Add':-1,'Subtract':-1,'Multiply':-1,'Divide':-1,'Equal':-1,'NotEqual':-1,'Greater':-1,'GreaterEqual':-1,'Less':-1,'LessEqual':-1,
         'Constant':1,'ConstantLong':1,'Nil':1,'True':1,'False':1,'Channel':1,'BufferedChannel':0,'Receive':0,'Send':-1,'IterNext':0,'IterCurrent':0,
         'Drop':-1,'Dup':1,'Import':1,'ImportSym':1,'Export':0,'LoadGlobal':1,'DeclareModSym':0,'GetModSym':1,'SetModSym':0,'Box':0,'EmptyBox':1,'FillBox':-1,
         'GetBox':1,'SetBox':0,'GetLocal':1,'SetLocal':0,'GetCapture':1,'SetCapture':0,'GetPropByName':0,'SetPropByName':-1,'GetProp':0,'SetProp':-1,
         'Jump':0,'Loop':0,'PushHandler':0,'PopHandler':0,'FinishUnwind':0,'GetError':1,'Closure':1,'Method':-1,'Field':0,'StaticMethod':-1,'Class':1,'Inherit':0,'GetSuper':-1}
    if name in E: return E[name]
    if name in ('List','Tuple','Interpolate'): return 1 - a
    if name == 'Map': return 1 - 2*a
    if name == 'DropN': return -a
    if name == 'Launch': return -(a+1)
    if name == 'Call': return -a
    if name == 'Invoke': return -a[1]
    if name == 'SuperInvoke': return -(a[1]+1)
    raise Bad('no effect for ' + name)

def verify(fn, ops):
    """explicit-state exploration of (pc, depth, handlers) ; returns list of violations"""
    V = []
    try: ins = decode(fn, ops)
    except Bad as e: return [str(e)], 0, 0
    base = 1 + fn['arity']
    depth_at = {}; hand_at = {}
    todo = [(0, base, ())]; states = 0; trans = 0; maxd = base
    code_len = len(fn['code'])
    def go(pc, d, h):
        nonlocal trans
        trans += 1
        if pc not in ins: V.append('jump to non-boundary/outside %d' % pc); return
        todo.append((pc, d, h))
    seen = set()
    while todo:
        pc, d, h = todo.pop()
        if (pc, d, h) in seen: continue
        seen.add((pc, d, h)); states += 1
        if pc in depth_at and depth_at[pc] != d: V.append('join mismatch at %d: %d vs %d' % (pc, depth_at[pc], d)); continue
        depth_at[pc] = d
        if pc in hand_at and len(hand_at[pc]) != len(h): V.append('handler count mismatch at %d' % pc); continue
        hand_at[pc] = h
        name, a, n = ins[pc]; nxt = pc + n
        if name in ('GetLocal','SetLocal','GetBox','SetBox','Box') and a >= d: V.append('%s %d beyond depth %d at %d' % (name, a, d, pc))
        if name in ('Constant','ConstantLong') and a >= len(fn['consts']): V.append('constant index %d out of range at %d' % (a, pc))
        if name in ('GetCapture','SetCapture') and a >= fn['captures']: V.append('capture index %d out of range at %d' % (a, pc))
        if name == 'Return':
            if d < base + 1: V.append('return with depth %d < base+1 %d at %d' % (d, base+1, pc))
            if h: V.append('return with %d live handlers at %d' % (len(h), pc))
            continue
        if name in ('Raise', 'ContinueUnwind'):
            continue
        if name in ('And', 'Or'):
            go(nxt + a, d, h); nd = d - 1
        elif name in ('JumpIfFalse', 'CheckHandler'):
            nd = d - 1; go(nxt + a, nd, h)
        elif name == 'Jump':
            go(nxt + a, d, h); continue
        elif name == 'Loop':
            go(nxt - a, d, h); continue
        elif name == 'PushHandler':
            rec, jmp = a
            if rec != d: V.append('PushHandler records %d but live depth is %d at %d' % (rec, d, pc))
            go(nxt + jmp, rec, h + (pc,))    # catch entry: VM resets stack to recorded depth, handler still on stack
            nd = d; h = h + (pc,)
        elif name == 'PopHandler':
            if not h: V.append('PopHandler with empty handler stack at %d' % pc); continue
            nd = d; h = h[:-1]
        else:
            try: nd = d + effect(name, a)
            except Bad as e: V.append(str(e)); continue
        if nd < base: V.append('depth %d below frame base %d after %s at %d' % (nd, base, name, pc))
        maxd = max(maxd, nd)
        if nxt >= code_len: V.append('fall off end after %d' % pc); continue
        go(nxt, nd, h)
    if maxd - base > fn['max_slots']: V.append('peak %d exceeds reserve max_slots=%d (base %d)' % (maxd - base, fn['max_slots'], base))
    return V, states, trans

def parse(path):
    progs = []; ops = None; cur = None
    for line in open(path):
        p = line.split()
        if not p: continue
        if p[0] == 'PROGRAM': progs.append({'id': int(p[1]), 'funs': [], 'status': 'ok'}); cur = progs[-1]
        elif p[0] == 'OPS': ops = p[1:]
        elif p[0] in ('COMPILE_ERROR', 'PANIC'): cur['status'] = p[0]
        elif p[0] == 'FUN':
            kv = dict(x.split('=') for x in p[2:])
            cur['funs'].append({'name': p[1], 'arity': int(kv['arity']), 'max_slots': int(kv['max_slots']), 'captures': int(kv['captures'])})
        elif p[0] == 'CODE': cur['funs'][-1]['code'] = list(map(int, p[1:]))
        elif p[0] == 'LINES': pass
        elif p[0] == 'CONSTS': cur['funs'][-1]['consts'] = p[2:]
    return ops, progs

if __name__ == '__main__':
    ops, progs = parse(sys.argv[1])
    names = open(sys.argv[2]).read().split('\n') if len(sys.argv) > 2 else None
    tally = collections.Counter(); S = T = F = 0; first = {}
    for pr in progs:
        if pr['status'] != 'ok': tally[pr['status']] += 1; continue
        for fn in pr['funs']:
            V, s, t = verify(fn, ops); S += s; T += t; F += 1
            for v in V:
                k = ' '.join(w for w in v.split() if not w.lstrip('-').isdigit())
                tally[k] += 1
                first.setdefault(k, (pr['id'], fn['name'], v))
    print('functions', F, 'abstract states', S, 'transitions', T)
    for k, v in tally.most_common(): print(v, k, '| first:', first.get(k), names[first[k][0]] if names and k in first else '')
