use laythe_env::{io::{Io, IoImpl}, stdio::{Stdio, StdioImpl}, fs::{Fs, FsImpl, LyDirEntry}, env::{Env, EnvImpl}};
use std::{io::{self, Read, Write}, sync::{Arc, Mutex}, path::{Path, PathBuf}, collections::HashMap};
use termcolor::WriteColor;

#[derive(Default, Debug)]
struct Bufs { out: Vec<u8>, err: Vec<u8> }
#[derive(Debug, Clone)]
struct Cap(Arc<Mutex<Bufs>>);
struct W(Arc<Mutex<Bufs>>, bool);
impl Write for W { fn write(&mut self, b: &[u8]) -> io::Result<usize> { let mut g = self.0.lock().unwrap(); if self.1 { g.err.extend_from_slice(b) } else { g.out.extend_from_slice(b) }; Ok(b.len()) } fn flush(&mut self) -> io::Result<()> { Ok(()) } }
impl WriteColor for W { fn supports_color(&self) -> bool { false } fn set_color(&mut self, _: &termcolor::ColorSpec) -> io::Result<()> { Ok(()) } fn reset(&mut self) -> io::Result<()> { Ok(()) } }
struct S { o: W, e: W, i: io::Empty }
impl StdioImpl for S {
  fn stdout(&mut self) -> &mut dyn Write { &mut self.o }
  fn stderr(&mut self) -> &mut dyn Write { &mut self.e }
  fn stderr_color(&mut self) -> &mut dyn WriteColor { &mut self.e }
  fn stdin(&mut self) -> &mut dyn Read { &mut self.i }
  fn read_line(&self, b: &mut String) -> io::Result<usize> { LINES.with(|l| { let mut l = l.borrow_mut(); if l.is_empty() { Ok(0) } else { let x = l.remove(0); b.push_str(&x); Ok(x.len()) } }) }
}
impl IoImpl<Stdio> for Cap { fn make(&self) -> Stdio { Stdio::new(Box::new(S { o: W(self.0.clone(), false), e: W(self.0.clone(), true), i: io::empty() })) } }

#[derive(Debug, Clone)]
struct MemFs(Arc<HashMap<PathBuf, String>>);
struct MemFsI(Arc<HashMap<PathBuf, String>>);
impl FsImpl for MemFsI {
  fn write_file(&self, _: &Path, _: &str) -> io::Result<()> { Ok(()) }
  fn read_file(&self, p: &Path) -> io::Result<String> { self.0.get(p).cloned().ok_or(io::Error::new(io::ErrorKind::NotFound, "nf")) }
  fn remove_file(&self, _: &Path) -> io::Result<()> { Ok(()) }
  fn read_directory(&self, _: &Path) -> io::Result<Vec<Box<dyn LyDirEntry>>> { Ok(vec![]) }
  fn canonicalize(&self, p: &Path) -> io::Result<PathBuf> { Ok(p.to_path_buf()) }
  fn relative_path(&self, _: &Path, i: &Path) -> io::Result<PathBuf> { Ok(i.to_path_buf()) }
}
impl IoImpl<Fs> for MemFs { fn make(&self) -> Fs { Fs::new(Box::new(MemFsI(self.0.clone()))) } }
#[derive(Debug)]
struct E;
struct EI;
impl EnvImpl for EI { fn current_dir(&self) -> io::Result<PathBuf> { Ok(PathBuf::from("/v")) } fn args(&self) -> Vec<String> { vec![] } }
impl IoImpl<Env> for E { fn make(&self) -> Env { Env::new(Box::new(EI)) } }

fn run(src: &str, files: &Arc<HashMap<PathBuf, String>>) -> (i32, String, String) {
  let cap = Cap(Arc::new(Mutex::new(Bufs::default())));
  let io = Io::default().with_stdio(Arc::new(cap.clone())).with_fs(Arc::new(MemFs(files.clone()))).with_env(Arc::new(E));
  let r = std::panic::catch_unwind(std::panic::AssertUnwindSafe(|| {
    let mut vm = laythe_vm::vm::Vm::new(io);
    if std::env::var("REPLMODE").is_ok() {
      LINES.with(|l| *l.borrow_mut() = src.split('\n').map(|x| format!("{}\n", x)).collect());
      let r = vm.repl(); std::mem::forget(vm); r.0
    } else {
      let r = vm.run(PathBuf::from("/v/main.lay"), src);
      std::mem::forget(vm);
      r.0
    }
  }));
  let g = cap.0.lock().unwrap();
  (r.unwrap_or(-99), String::from_utf8_lossy(&g.out).into_owned(), String::from_utf8_lossy(&g.err).into_owned())
}


fn main() {
  let args: Vec<String> = std::env::args().collect();
  let files = Arc::new(HashMap::new());
  std::panic::set_hook(Box::new(|info| {
    let loc = info.location().map(|l| format!("{}:{}", l.file(), l.line())).unwrap_or_default();
    LAST_PANIC.with(|p| *p.borrow_mut() = loc);
  }));
  let text = std::fs::read_to_string(&args[1]).unwrap();
  let t = std::time::Instant::now();
  let mut n = 0;
  let mut out = std::fs::File::create(&args[2]).unwrap();
  for prog in text.split("\n=====\n") {
    if prog.trim().is_empty() { continue; }
    LAST_PANIC.with(|p| p.borrow_mut().clear());
    let (c, o, e) = run(prog, &files);
    let p = LAST_PANIC.with(|p| p.borrow().clone());
    let cls = if c == -99 { format!("PANIC {}", p) } else if e.contains("Fatal error deadlock") { "DEADLOCK".to_string() } else if c != 0 { format!("ERR {}", e.lines().last().unwrap_or("")) } else { "OK".to_string() };
    writeln!(out, "{}\t{}", cls, o.replace('\n', "|")).unwrap();
    n += 1;
  }
  eprintln!("{} programs in {:?}", n, t.elapsed());
}
thread_local! { static LINES: std::cell::RefCell<Vec<String>> = std::cell::RefCell::new(vec![]); }
thread_local! { static LAST_PANIC: std::cell::RefCell<String> = std::cell::RefCell::new(String::new()); }
