use laythe_env::{io::{Io, IoImpl}, stdio::{Stdio, StdioImpl}};
use laythe_core::verif_gc as G;
use std::{io::{self, Read, Write}, sync::{Arc, Mutex}, path::PathBuf, alloc::{GlobalAlloc, Layout, System}, sync::atomic::{AtomicBool, Ordering}};
use termcolor::WriteColor;

struct Poison;
static POISON: AtomicBool = AtomicBool::new(false);
static MISMATCH: std::sync::atomic::AtomicU64 = std::sync::atomic::AtomicU64::new(0);
unsafe impl GlobalAlloc for Poison {
  unsafe fn alloc(&self, l: Layout) -> *mut u8 {
    let pad = l.align().max(16);
    let raw = System.alloc(Layout::from_size_align_unchecked(l.size() + pad, pad));
    if raw.is_null() { return raw; }
    *(raw as *mut usize) = l.size();
    raw.add(pad)
  }
  unsafe fn dealloc(&self, p: *mut u8, l: Layout) {
    let pad = l.align().max(16);
    let raw = p.sub(pad);
    let real = *(raw as *const usize);
    if real != l.size() { MISMATCH.fetch_add(1, Ordering::Relaxed); }
    if POISON.load(Ordering::Relaxed) { std::ptr::write_bytes(p, 0xDE, real); } else { System.dealloc(raw, Layout::from_size_align_unchecked(real + pad, pad)) }
  }
}
#[global_allocator]
static A: Poison = Poison;

#[derive(Default, Debug)]
struct Bufs { out: Vec<u8>, err: Vec<u8> }
#[derive(Debug, Clone)]
struct Cap(Arc<Mutex<Bufs>>);
struct W(Arc<Mutex<Bufs>>, bool);
impl Write for W { fn write(&mut self, b: &[u8]) -> io::Result<usize> { let mut g = self.0.lock().unwrap(); if self.1 { g.err.extend_from_slice(b) } else { g.out.extend_from_slice(b) }; Ok(b.len()) } fn flush(&mut self) -> io::Result<()> { Ok(()) } }
impl WriteColor for W { fn supports_color(&self) -> bool { false } fn set_color(&mut self, _: &termcolor::ColorSpec) -> io::Result<()> { Ok(()) } fn reset(&mut self) -> io::Result<()> { Ok(()) } }
struct S { o: W, e: W, i: io::Empty }
impl StdioImpl for S {
  fn stdout(&mut self) -> &mut dyn Write { &mut self.o }
  fn stderr(&mut self) -> &mut dyn Write { &mut self.e }
  fn stderr_color(&mut self) -> &mut dyn WriteColor { &mut self.e }
  fn stdin(&mut self) -> &mut dyn Read { &mut self.i }
  fn read_line(&self, _b: &mut String) -> io::Result<usize> { Ok(0) }
}
impl IoImpl<Stdio> for Cap { fn make(&self) -> Stdio { Stdio::new(Box::new(S { o: W(self.0.clone(), false), e: W(self.0.clone(), true), i: io::empty() })) } }

fn norm(s: &str) -> String { if std::env::var("NONORM").is_ok() { return s.to_string(); }
  // strip hex addresses
  let mut out = String::new(); let b = s.as_bytes(); let mut i = 0;
  while i < b.len() { if b[i] == b'0' && i + 1 < b.len() && b[i+1] == b'x' { out.push_str("0xX"); i += 2; while i < b.len() && (b[i] as char).is_ascii_hexdigit() { i += 1; } } else { out.push(b[i] as char); i += 1; } }
  out
}

fn run(path: &PathBuf, src: &str, mode: u8, at: u64, at2: u64, kind: u8) -> (String, u64, u64) {
  let cap = Cap(Arc::new(Mutex::new(Bufs::default())));
  let io = laythe_native::io::io_native().with_stdio(Arc::new(cap.clone()));
  G::MODE.with(|m| m.set(1)); // never during Vm::new
  let r = std::panic::catch_unwind(std::panic::AssertUnwindSafe(|| {
    let mut vm = laythe_vm::vm::Vm::new(io);
    G::COUNTER.with(|c| c.set(0)); G::COLLECTIONS.with(|c| c.set(0));
    G::MODE.with(|m| m.set(mode)); G::AT.with(|a| a.set(at)); G::AT2.with(|a| a.set(at2)); G::KIND.with(|k| k.set(kind));
    let r = vm.run(path.clone(), src);
    G::MODE.with(|m| m.set(1));
    std::mem::forget(vm);
    r.0
  }));
  G::MODE.with(|m| m.set(1));
  let g = cap.0.lock().unwrap();
  let code = match r { Ok(c) => format!("exit={c}"), Err(_) => "PANIC".to_string() };
  (format!("{code}\n{}\n--\n{}", norm(&String::from_utf8_lossy(&g.out)), norm(&String::from_utf8_lossy(&g.err))), G::COUNTER.with(|c| c.get()), G::COLLECTIONS.with(|c| c.get()))
}

fn main() {
  let args: Vec<String> = std::env::args().collect();
  let path = PathBuf::from(&args[1]);
  let pairs = args.get(2).map(|s| s == "pairs").unwrap_or(false);
  let src = std::fs::read_to_string(&path).unwrap();
  std::panic::set_hook(Box::new(|_| {}));
  let (base, n, _) = run(&path, &src, 1, 0, 0, 0);
  if std::env::var("CACHEOFF").is_ok() { laythe_vm::verif::VERIF_BYPASS.store(true, Ordering::Relaxed); let (o, _, _) = run(&path, &src, 1, 0, 0, 0); println!("DONE {} cacheoff same={}", args[1], o == base); if o != base { println!("--- base\n{}\n--- off\n{}", base, o); } return; }
  if std::env::var("EVERYNP").is_ok() { for kind in [2u8, 0u8] { let (o, _, c) = run(&path, &src, 2, 0, 0, kind); println!("every kind={kind} collections={c} same={}\n{}", o == base, o); } return; }
  if let Ok(o) = std::env::var("ONLY") { let v: Vec<u64> = o.split(',').map(|x| x.parse().unwrap()).collect(); POISON.store(true, Ordering::Relaxed); let (o, _, _) = run(&path, &src, 3, v[0], u64::MAX, v[1] as u8); println!("{}", o); return; }
  POISON.store(true, Ordering::Relaxed);
  let mut runs = 0u64; let mut bad = 0u64;
  let mut report = |what: String, o: &str| { if o != base { bad += 1; if bad <= 2 { println!("DIFF {} {}\n--- base\n{}\n--- got\n{}", args[1], what, base, o); } } };
  if std::env::var("NOEVERY").is_err() { for kind in [2u8, 0u8] { eprintln!("every kind={kind}"); let (o, _, _) = run(&path, &src, 2, 0, 0, kind); runs += 1; report(format!("every kind={kind}"), &o); } }
  if n <= 3000 {
    for kind in [2u8, 1u8] { for k in 0..n { eprintln!("single k={k} kind={kind}"); let (o, _, _) = run(&path, &src, 3, k, u64::MAX, kind); runs += 1; report(format!("single k={k} kind={kind}"), &o); } }
  }
  if pairs && n <= 80 { for j in 0..n { for k in (j+1)..n { eprintln!("pair {j},{k}"); let (o, _, _) = run(&path, &src, 3, j, k, 2); runs += 1; report(format!("pair {j},{k}"), &o); } } }
  println!("DONE {} allocs={} runs={} bad={} layout_mismatch={}", args[1], n, runs, bad, MISMATCH.load(Ordering::Relaxed));
}
