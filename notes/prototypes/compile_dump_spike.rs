// dump compiled functions for every program in a batch file
fn main() {
  let args: Vec<String> = std::env::args().collect();
  let text = std::fs::read_to_string(&args[1]).unwrap();
  std::panic::set_hook(Box::new(|_| {}));
  let mut out = String::new();
  for (i, prog) in text.split("\n=====\n").enumerate() {
    let r = std::panic::catch_unwind(|| {
      let mut vm = laythe_vm::vm::Vm::new(laythe_env::io::Io::default());
      let r = vm.verif_compile_dump(prog);
      std::mem::forget(vm);
      r
    });
    out.push_str(&format!("PROGRAM {}\n", i));
    match r { Ok(Ok(d)) => out.push_str(&d), Ok(Err(_)) => out.push_str("COMPILE_ERROR\n"), Err(_) => out.push_str("PANIC\n") }
  }
  std::fs::write(&args[2], out).unwrap();
}
