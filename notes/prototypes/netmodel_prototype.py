import itertools, sys, subprocess, collections

# ---- network enumeration -------------------------------------------------
KINDS = ['sync', 'buf1', 'buf2']
def scripts_upto(nch, maxlen):
    alpha = [(op, c) for c in range(nch) for op in 'src']   # send recv close
    out = [()]
    for L in range(1, maxlen + 1):
        out += list(itertools.product(alpha, repeat=L))
    return out

def networks(nch, nfib, total):
    S = scripts_upto(nch, total)
    for kinds in itertools.product(KINDS, repeat=nch):
        for main in S:
            for rest in itertools.combinations_with_replacement([s for s in S if s], nfib):
                if len(main) + sum(map(len, rest)) <= total:
                    yield kinds, (main,) + rest

# ---- program text --------------------------------------------------------
def val(f, i): return "v%d_%d" % (f, i)
def body(f, script):
    out = []
    for i, (op, c) in enumerate(script):
        if op == 's': out.append("c%d <- '%s'; print('%d %d s');" % (c, val(f, i), f, i))
        elif op == 'r': out.append("let x%d = <- c%d; print('%d %d r ' + (x%d == nil ? 'nil' : x%d));" % (i, c, f, i, i, i))
        else: out.append("c%d.close(); print('%d %d c');" % (c, f, i))
    return ' '.join(out)
def program(kinds, fibers):
    L = []
    for c, k in enumerate(kinds):
        L.append("let c%d = %s;" % (c, {'sync': 'chan()', 'buf1': 'chan(1)', 'buf2': 'chan(2)'}[k]))
    params = ', '.join('c%d' % c for c in range(len(kinds)))
    for f, s in enumerate(fibers):
        if f == 0: continue
        L.append("fn f%d(%s) { %s }" % (f, params, body(f, s)))
    for f in range(1, len(fibers)):
        L.append("launch f%d(%s);" % (f, params))
    L.append(body(0, fibers[0]))
    L.append("print('0 end');")
    return '\n'.join(L)

# ---- spec model: state = (pcs, chans) ; chan = (queue tuple, closed, offer) ----
# sync channel: 'offer' = (fiber, value) parked sender whose value not yet taken; queue unused.
def init(kinds, fibers):
    return (tuple(0 for _ in fibers), tuple(((), False, None) for _ in kinds), frozenset())
def cap(k): return {'buf1': 1, 'buf2': 2}.get(k)
def steps(kinds, fibers, st):
    """yield (event, newstate); event None = tau; event = (f, i, kind, value) visible completion; ('err', f, i)"""
    pcs, chans, rel = st
    for f, s in enumerate(fibers):
        i = pcs[f]
        # a fiber whose current op is a sync send with a parked offer cannot step by itself
        if i >= len(s): continue
        op, c = s[i]
        q, closed, offer = chans[c]
        def upd(newchan, adv=True):
            nc = list(chans); nc[c] = newchan
            np = list(pcs)
            if adv: np[f] += 1
            return (tuple(np), tuple(nc), rel)
        if op == 's':
            if kinds[c] == 'sync':
                if f in rel:
                    np = list(pcs); np[f] += 1
                    yield (f, i, 's', None), (tuple(np), chans, rel - {f}); continue
                if offer is not None and offer[0] == f:
                    continue  # parked, waits for taker
                if closed:
                    yield ('err', f, i), upd((q, closed, offer), False)
                elif offer is None:
                    yield None, upd((q, closed, (f, val(f, i))), False)   # tau: offer
                # else another sender's offer pending: blocked
            else:
                if closed: yield ('err', f, i), upd((q, closed, offer), False)
                elif len(q) < cap(kinds[c]): yield (f, i, 's', None), upd((q + (val(f, i),), closed, offer))
        elif op == 'r':
            if kinds[c] == 'sync':
                if offer is not None:
                    n = upd((q, closed, None))
                    yield (f, i, 'r', offer[1]), (n[0], n[1], rel | {offer[0]})
                elif closed:
                    yield (f, i, 'r', 'nil'), upd((q, closed, offer))
            else:
                if q: yield (f, i, 'r', q[0]), upd((q[1:], closed, offer))
                elif closed: yield (f, i, 'r', 'nil'), upd((q, closed, offer))
        else:
            if closed: yield ('err', f, i), upd((q, closed, offer), False)
            else: yield (f, i, 'c', None), upd((q, True, offer))

def unspecified(kinds, st):
    # close while a sync sender is parked with an untaken value
    return any(k == 'sync' and closed and offer is not None for k, (q, closed, offer) in zip(kinds, st[1]))

def explore(kinds, fibers):
    s0 = init(kinds, fibers); seen = {s0}; todo = [s0]; trans = 0; unspec = False
    while todo:
        s = todo.pop()
        if unspecified(kinds, s): unspec = True
        for ev, n in steps(kinds, fibers, s):
            trans += 1
            if ev and ev[0] == 'err': continue
            if n not in seen: seen.add(n); todo.append(n)
    return len(seen), trans, unspec

def tau_closure(kinds, fibers, S):
    S = set(S); todo = list(S)
    while todo:
        s = todo.pop()
        for ev, n in steps(kinds, fibers, s):
            if ev is None and n not in S: S.add(n); todo.append(n)
    return S

def check_trace(kinds, fibers, cls, lines):
    """trace inclusion + terminal check. returns None if ok else reason"""
    S = tau_closure(kinds, fibers, {init(kinds, fibers)})
    main_end = False
    for ln in lines:
        if ln == '0 end': main_end = True; continue
        p = ln.split()
        f, i, k = int(p[0]), int(p[1]), p[2]
        v = p[3] if len(p) > 3 else None
        N = set()
        for s in S:
            for ev, n in steps(kinds, fibers, s):
                if ev and ev[0] != 'err' and ev == (f, i, k, v): N.add(n)
        if not N: return 'step not enabled in model: ' + ln
        S = tau_closure(kinds, fibers, N)
    if any(unspecified(kinds, s) for s in S): return None
    if cls == 'OK':
        if not main_end: return 'exit ok without main end'
        if not any(s[0][0] == len(fibers[0]) for s in S): return 'main ended early'
    elif cls == 'DEADLOCK':
        # legit iff some consistent state has no enabled transition and main not finished
        ok = any((not list(steps(kinds, fibers, s))) and s[0][0] < len(fibers[0]) for s in S)
        if not ok: return 'spurious deadlock'
    elif cls.startswith('ERR'):
        ok = any(ev and ev[0] == 'err' for s in S for ev, n in steps(kinds, fibers, s))
        if not ok: return 'unexpected error: ' + cls
    else:
        return cls
    return None

if __name__ == '__main__':
    nch, nfib, total = map(int, sys.argv[1:4])
    nets = list(networks(nch, nfib, total))
    print(len(nets), 'networks', file=sys.stderr)
    with open('progs.txt', 'w') as fh:
        fh.write('\n=====\n'.join(program(k, f) for k, f in nets))
    subprocess.run(['/root/scratch/tgt_spike/release/spike', 'progs.txt', 'out.txt'], check=True)
    res = [l.rstrip('\n').split('\t') for l in open('out.txt')]
    assert len(res) == len(nets), (len(res), len(nets))
    tally = collections.Counter(); states = trans = 0; first = {}
    for (kinds, fibers), (cls, out) in zip(nets, res):
        ns, nt, unspec = explore(kinds, fibers); states += ns; trans += nt
        lines = [l for l in out.split('|') if l]
        r = check_trace(kinds, fibers, cls, lines)
        key = 'ok' if r is None else (r.split(':')[0] if not r.startswith('PANIC') else r)
        tally[key] += 1
        if r is not None and key not in first: first[key] = (kinds, fibers, cls, lines)
    print('model states', states, 'transitions', trans)
    for k, v in tally.most_common(): print(v, k)
    for k, (kinds, fibers, cls, lines) in first.items():
        print('--- first', k); print(program(kinds, fibers)); print(cls, lines)
