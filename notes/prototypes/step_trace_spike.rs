use laythe_vm::vm::{verif_trace as T, Vm};
use std::path::PathBuf;
fn main() {
  let args: Vec<String> = std::env::args().collect();
  let mut out = String::new();
  std::panic::set_hook(Box::new(|_| {}));
  for (i, path) in std::fs::read_to_string(&args[1]).unwrap().lines().enumerate() {
    let src = std::fs::read_to_string(path).unwrap();
    T::STEPS.with(|s| s.borrow_mut().clear());
    let p = PathBuf::from(path);
    let r = std::panic::catch_unwind(|| {
      let mut vm = Vm::new(laythe_native::io::io_native().with_stdio(std::sync::Arc::new(laythe_env::stdio::IoStdioMock())));
      T::ON.with(|o| o.set(true));
      let r = vm.run(p, &src);
      T::ON.with(|o| o.set(false));
      let d = T::dump(&Vm::verif_ops());
      std::mem::forget(vm);
      (r.0, d)
    });
    T::ON.with(|o| o.set(false));
    out.push_str(&format!("PROGRAM {}\n", i));
    match r { Ok((_, d)) => out.push_str(&d), Err(_) => out.push_str("PANIC\n") }
  }
  std::fs::write(&args[2], out).unwrap();
}
