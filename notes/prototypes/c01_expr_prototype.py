import itertools, subprocess, collections, math, sys, struct

# ---- AST: ('lit', v) ('var',) ('un', op, e) ('bin', op, l, r) ('tern', c, a, b) ('asg', e)
LEAVES = [('lit', None), ('lit', True), ('lit', False), ('lit', 0.0), ('lit', 1.0), ('lit', 2.0), ('lit', 0.5), ('lit', ''), ('lit', 'a'), ('lit', 'b'), ('var',)]
UN = ['!', '-']
BIN = ['+', '-', '*', '/', '<', '<=', '>', '>=', '==', '!=', '&&', '||']
PREC = {'||': 1, '&&': 2, '==': 3, '!=': 3, '<': 4, '<=': 4, '>': 4, '>=': 4, '+': 5, '-': 5, '*': 6, '/': 6}

def trees(k, leaves):
    """all trees with exactly k operators"""
    if k == 0:
        yield from leaves; return
    for op in UN:
        for e in trees(k - 1, leaves): yield ('un', op, e)
    for op in BIN:
        for i in range(k):
            for l in trees(i, leaves):
                for r in trees(k - 1 - i, leaves): yield ('bin', op, l, r)
    for i in range(k):
        for j in range(k - i):
            for c in trees(i, leaves):
                for a in trees(j, leaves):
                    for b in trees(k - 1 - i - j, leaves): yield ('tern', c, a, b)
    for e in trees(k - 1, leaves): yield ('asg', e)

# ---- printers
def lit(v):
    if v is None: return 'nil'
    if v is True: return 'true'
    if v is False: return 'false'
    if isinstance(v, float): return ('%g' % v)
    return "'%s'" % v
def full(e):
    t = e[0]
    if t == 'lit': return lit(e[1])
    if t == 'var': return 'x'
    if t == 'un': return '(%s%s)' % (e[1], full(e[2]))
    if t == 'bin': return '(%s %s %s)' % (full(e[2]), e[1], full(e[3]))
    if t == 'tern': return '(%s ? %s : %s)' % (full(e[1]), full(e[2]), full(e[3]))
    if t == 'asg': return '(x = %s)' % full(e[1])
def minp(e, ctx=0, right=False):
    """minimal parentheses by the reference table: ternary 0 (right assoc), assignment -1, binary left assoc, unary 7"""
    t = e[0]
    if t == 'lit':
        return lit(e[1])
    if t == 'var': return 'x'
    if t == 'un':
        s = e[1] + minp(e[2], 7)
        return s
    if t == 'bin':
        p = PREC[e[1]]
        s = '%s %s %s' % (minp(e[2], p), e[1], minp(e[3], p + 1))
        return '(%s)' % s if p < ctx else s
    if t == 'tern':
        s = '%s ? %s : %s' % (minp(e[1], 1), minp(e[2], 0), minp(e[3], 0))
        return '(%s)' % s if ctx > 0 else s
    if t == 'asg':
        s = 'x = %s' % minp(e[1], 0)
        return '(%s)' % s if ctx > -1 else s

# ---- reference evaluator
class Err(Exception): pass
def falsey(v): return v is None or v is False
def isnum(v): return isinstance(v, float)
def isstr(v): return isinstance(v, str)
def ev(e, env):
    t = e[0]
    if t == 'lit': return e[1]
    if t == 'var': return env['x']
    if t == 'asg':
        v = ev(e[1], env); env['x'] = v; return v
    if t == 'un':
        v = ev(e[2], env)
        if e[1] == '!': return falsey(v)
        if not isnum(v): raise Err('RuntimeError')
        return -v
    if t == 'tern':
        return ev(e[3], env) if falsey(ev(e[1], env)) else ev(e[2], env)
    op = e[1]
    if op == '&&':
        l = ev(e[2], env); return l if falsey(l) else ev(e[3], env)
    if op == '||':
        l = ev(e[2], env); return ev(e[3], env) if falsey(l) else l
    l = ev(e[2], env); r = ev(e[3], env)
    if op == '==': return eq(l, r)
    if op == '!=': return not eq(l, r)
    if op == '+':
        if isnum(l) and isnum(r): return l + r
        if isstr(l) and isstr(r): return l + r
        raise Err('RuntimeError')
    if op in '-*/':
        if not (isnum(l) and isnum(r)): raise Err('RuntimeError')
        if op == '-': return l - r
        if op == '*': return l * r
        if r == 0.0:
            if l == 0.0 or l != l: return float('nan')
            return math.copysign(float('inf'), l) * math.copysign(1.0, r)
        return l / r
    if (isnum(l) and isnum(r)) or (isstr(l) and isstr(r)):
        return {'<': l < r, '<=': l <= r, '>': l > r, '>=': l >= r}[op]
    raise Err('RuntimeError')
def eq(l, r):
    if isinstance(l, bool) or isinstance(r, bool): return isinstance(l, bool) and isinstance(r, bool) and l == r
    if l is None or r is None: return l is None and r is None
    if isnum(l) != isnum(r): return False
    return l == r
def show(v):
    if v is None: return 'nil'
    if v is True: return 'true'
    if v is False: return 'false'
    if isnum(v):
        if v != v: return 'NaN'
        if v == float('inf'): return 'inf'
        if v == float('-inf'): return '-inf'
        if v == int(v) and abs(v) < 1e15:
            return ('-0' if (v == 0 and math.copysign(1, v) < 0) else str(int(v)))
        return repr(v)
    return v

POS = {
 'module': "let x = 1;\nprint(%s);\nprint(x);",
 'fn': "fn f() { let x = 1; print(%s); print(x); }\nf();",
 'method': "class C { m() { let x = 1; print(%s); print(x); } }\nC().m();",
 'lambda': "let g = || { let x = 1; print(%s); print(x); };\ng();",
}
if __name__ == '__main__':
    k = int(sys.argv[1]); reduced = len(sys.argv) > 2
    leaves = [('lit', None), ('lit', False), ('lit', 1.0), ('lit', 'a'), ('var',)] if reduced else LEAVES
    exprs = [e for kk in range(0, k + 1) for e in trees(kk, leaves)]
    cases = []
    for e in exprs:
        for pos in POS:
            for lay, pr in (('full', full), ('min', minp)):
                cases.append((e, pos, lay, POS[pos] % pr(e)))
    print(len(exprs), 'expressions', len(cases), 'programs', file=sys.stderr)
    open('progs.txt', 'w').write('\n=====\n'.join(c[3] for c in cases))
    subprocess.run(['/root/scratch/tgt_spike/release/spike', 'progs.txt', 'out.txt'], check=True)
    res = [l.rstrip('\n').split('\t') for l in open('out.txt')]
    assert len(res) == len(cases)
    tally = collections.Counter(); first = {}; outcomes = set()
    for (e, pos, lay, prog), (cls, out) in zip(cases, res):
        env = {'x': 1.0}
        try: exp = 'OK\t' + show(ev(e, env)) + '|' + show(env['x']) + '|'
        except Err as er: exp = 'ERR ' + str(er)
        got = cls.split(':')[0] if cls.startswith('ERR') else cls + '\t' + out
        outcomes.add(exp)
        if got != exp:
            key = (pos, lay, 'expected ' + exp.split('\t')[0] + ' got ' + got.split('\t')[0])
            tally[key] += 1; first.setdefault(key, (prog, exp, got))
        else: tally['ok'] += 1
    print('distinct expected outcomes', len(outcomes))
    for k_, v in tally.most_common(12): print(v, k_)
    for k_, (prog, exp, got) in list(first.items())[:6]:
        print('---', k_); print(prog); print('expected:', repr(exp)); print('got     :', repr(got))
