import sys, collections
sys.path.insert(0, '.')
import bcv
def parse(path):
    progs = []; ops = None; cur = None
    for line in open(path):
        p = line.split()
        if not p: continue
        if p[0] == 'PROGRAM': cur = {'id': int(p[1]), 'funs': {}, 'steps': [], 'status': 'ok'}; progs.append(cur); last = None
        elif p[0] == 'OPS': ops = p[1:]
        elif p[0] == 'PANIC': cur['status'] = 'PANIC'
        elif p[0] == 'FUN':
            kv = dict(x.split('=') for x in p[2:])
            last = {'name': p[1], 'arity': int(kv['arity']), 'max_slots': int(kv['max_slots']), 'captures': int(kv['captures'])}
            cur['funs'][int(kv['id'])] = last
        elif p[0] == 'CODE': last['code'] = list(map(int, p[1:]))
        elif p[0] == 'CONSTS': last['consts'] = p[2:]
        elif p[0] == 'STEPS': cur['steps'] = [tuple(map(int, x.split(':'))) for x in p[1:]]
    return ops, progs
ops, progs = parse(sys.argv[1])
names = open(sys.argv[2]).read().split('\n')
tally = collections.Counter(); first = {}; points = 0; checked = 0
for pr in progs:
    if pr['status'] != 'ok': tally['PANIC'] += 1; continue
    abstract = {}
    for fid, fn in pr['funs'].items():
        # re-run the explorer but keep its tables
        V = []
        try: ins = bcv.decode(fn, ops)
        except bcv.Bad as e: tally['decode: ' + str(e)] += 1; continue
        base = 1 + fn['arity']; depth_at = {}; hand_at = {}; todo = [(0, base, 0)]; seen = set()
        while todo:
            pc, d, h = todo.pop()
            if (pc, d, h) in seen or pc not in ins: continue
            seen.add((pc, d, h)); depth_at.setdefault(pc, set()).add(d); hand_at.setdefault(pc, set()).add(h)
            name, a, n = ins[pc]; nxt = pc + n
            if name in ('Return', 'Raise', 'ContinueUnwind'): continue
            if name in ('And', 'Or'): todo.append((nxt + a, d, h)); nd = d - 1
            elif name in ('JumpIfFalse', 'CheckHandler'): nd = d - 1; todo.append((nxt + a, nd, h))
            elif name == 'Jump': todo.append((nxt + a, d, h)); continue
            elif name == 'Loop': todo.append((nxt - a, d, h)); continue
            elif name == 'PushHandler': todo.append((nxt + a[1], a[0], h + 1)); nd = d; h = h + 1
            elif name == 'PopHandler': nd = d; h = max(0, h - 1)
            else: nd = d + bcv.effect(name, a)
            todo.append((nxt, nd, h))
        abstract[fid] = (ins, depth_at, hand_at, fn)
    for fid, pc, depth, handlers in pr['steps']:
        points += 1
        if fid not in abstract: continue
        ins, depth_at, hand_at, fn = abstract[fid]
        checked += 1
        if pc not in ins: k = 'executed pc is not an instruction boundary'
        elif depth not in depth_at.get(pc, ()): k = 'runtime depth differs from abstract depth at %s' % ins[pc][0]
        elif handlers not in hand_at.get(pc, ()): k = 'runtime live handlers differ at %s' % ins[pc][0]
        else: continue
        tally[k] += 1
        first.setdefault(k, (names[pr['id']], fn['name'], pc, depth, sorted(depth_at.get(pc, ())), handlers, sorted(hand_at.get(pc, ()))))
print('trace points', points, 'checked', checked)
for k, v in tally.most_common(): print(v, k, '| first:', first.get(k))
