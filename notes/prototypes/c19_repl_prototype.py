import itertools, subprocess, collections, os
E = [
 "let x = 1;",
 "x = x + 1; print(x);",
 "fn f() { x }",
 "print(f());",
 "class A { m() { 1 } n() { self.m() + 1 } }",
 "fn g(a) { a.n() }",
 "print(g(A()));",
 "fn h(a) { a.p = 5; a.p }",
 "class B { init() { self.p = 0; } }",
 "print(h(B()));",
 "let y = ;",
 "raise Error('boom');",
]
NEEDS = {1:[0],2:[0],3:[2],5:[],6:[4,5],7:[],9:[7,8]}   # indices that must appear earlier for the entry to be valid
seqs=[]
for L in (1,2,3,4):
    for s in itertools.product(range(len(E)), repeat=L):
        ok=True; seen=set()
        for i in s:
            if i in seen and i in (0,2,4,5,7,8): ok=False; break      # no redefinition
            if any(d not in seen for d in NEEDS.get(i,[])): ok=False; break
            seen.add(i)
        if ok: seqs.append(s)
print(len(seqs),'sequences')
repl_in='\n=====\n'.join('\n'.join(E[i] for i in s) for s in seqs)
# file version: drop the compile-error line; stop at the first raise (file run ends there, repl continues) -> compare stdout up to the raise only
def file_prog(s):
    out=[]
    for i in s:
        if i==10: continue
        if i==11: break
        out.append(E[i])
    return '\n'.join(['nil;'] + out)
def repl_prefix_len(s):
    return None
open('repl.txt','w').write(repl_in); open('file.txt','w').write('\n=====\n'.join(file_prog(s) for s in seqs))
def run(inp,out,env):
    # chunk with resume on crash
    progs=open(inp).read().split('\n=====\n'); res=[]; i=0
    while i<len(progs):
        open('chunk.txt','w').write('\n=====\n'.join(progs[i:i+500]))
        if os.path.exists('chunk.out'): os.remove('chunk.out')
        p=subprocess.run(['timeout','120','/root/scratch/tgt_spike/release/spike','chunk.txt','chunk.out'],env=dict(os.environ,**env),capture_output=True,text=True)
        got=[l.rstrip('\n') for l in open('chunk.out')] if os.path.exists('chunk.out') else []
        res+=got; i+=len(got)
        if len(got)<min(500,len(progs)-i+len(got)):
            res.append('CRASH rc=%d\t'%p.returncode); i+=1
    return res
r=run('repl.txt','repl.out',{'REPLMODE':'1'}); f=run('file.txt','file.out',{})
c=collections.Counter(); first={}
for s,a,b in zip(seqs,r,f):
    acls,aout=(a.split('\t')+[''])[:2]; bcls,bout=(b.split('\t')+[''])[:2]
    aout=aout.replace('laythe:> ','')
    # repl continues after a raise: compare only the part the file run also produces unless no raise
    if 11 in s:
        ok = aout.startswith(bout) and not acls.startswith(('PANIC','CRASH'))
    else:
        ok = (aout==bout) and not acls.startswith(('PANIC','CRASH'))
    k='ok' if ok else ('%s' % acls.split()[0] if acls.startswith(('PANIC','CRASH')) else 'output differs')
    c[k]+=1; first.setdefault(k,(s,a,b))
for k,v in c.most_common(): print(v,k)
for k,(s,a,b) in first.items():
    if k!='ok': print('---',k); print('\n'.join(E[i] for i in s)); print('repl:',a[:160]); print('file:',b[:160])
