#!/bin/bash
# runs every check of a tier sequentially; prints the summary line of each
tier=${1:-quick}
cd "$(dirname "$0")"
./vc build all || exit 2
for c in C01 C02 C03 C04 C05 C06 C07 C08 C09 C10 C11 C12 C13 C14 C15 C16 C17 C18 C19 C20; do
  s=$(date +%s)
  out=$(./vc $c $tier 2>&1); rc=$?
  echo "$c rc=$rc $(( $(date +%s) - s ))s :: $(echo "$out" | grep -E "^$c $tier:" | tail -1)"
  echo "$out" | grep -E "^VIOLATION|^MACHINERY" | head -5
done
